#!/bin/sh
# usage: tools/seedall.sh [tier] [seed]
# Runs every kept seeded change (seeded/*/) through the check of the property it
# breaks, in scratch worktrees (never in /repo), and prints the catch matrix.
TIER=${1:-quick}; SEED=${2:-1}
cd "$(dirname "$0")/.."
for d in seeded/*/; do
  d=${d%/}
  [ -f "$d/meta.json" ] || continue
  P=$(python3 -c "import json; print(json.load(open('$d/meta.json'))['property'])")
  OUT=$(tools/seedtest.sh "$d" "$P" "$TIER" "$SEED" 2>&1)
  DEMO=$(echo "$OUT" | grep -c "demo with change: FAIL")
  SUITE=$(echo "$OUT" | grep -c "suite with change: PASS")
  if echo "$OUT" | grep -q "VIOLATION"; then V=caught; else V=MISSED; fi
  echo "$(basename $d) property=$P demo_fails=$DEMO suite_passes=$SUITE $TIER seed=$SEED: $V"
done
