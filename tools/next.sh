#!/bin/sh
# usage: tools/next.sh <property> [tier]  -- run check, show the first failure compactly
cd /verif
rm -rf replays/$1/found-*
./check $1 ${2:-quick} > /tmp/next.log 2>&1
grep -E "^VIOLATION|^OK |^INCONCL|^KNOWN" /tmp/next.log
for f in replays/$1/found-*.json; do
  [ -f "$f" ] || continue
  python3 - "$f" <<'PY'
import json,sys
d=json.load(open(sys.argv[1]))
for fl in d['failures'][:3]:
    print('SIG',fl['sig']); print(fl['msg'][:1500])
c=d['case']
w=c.get('world') or c
for p in (w.get('paths') or [])[:2]:
    for f in p['files']:
        print('--- file',p['path'],f['name']); print(f['text'][:600])
print('CASE(short):', json.dumps({k:v for k,v in c.items() if k!='world'})[:600])
PY
done
