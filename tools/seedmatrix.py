#!/usr/bin/env python3
# Regenerates seeded/README.md (the catch matrix) from seeded/*/meta.json.
import json, glob, os
out = ["# Seeded changes: which check catches which change", "",
       "Each directory holds `patch.diff` (apply with `git -C <checkout> apply`), `demo_test.go` (fails with the change, passes without),",
       "`NOTES.md` (the author's description) and `meta.json`. Every change compiles and passes the library's unedited test suite.",
       "They are evaluated with `tools/seedtest.sh <dir> <property> [tier] [seeds]` in a scratch worktree (never in /repo).", "",
       "| seed | change | needs, to manifest | checks |", "|---|---|---|---|"]
for d in sorted(glob.glob('/verif/seeded/*/meta.json')):
    m = json.load(open(d))
    esc = lambda s: s.replace('|', '\\|').replace('\n', ' ')
    out.append("| %s | %s | %s | %s |" % (os.path.basename(os.path.dirname(d)), esc(m['breaks']), esc(m['needs_to_manifest']), esc(m['checks'])))
open('/verif/seeded/README.md', 'w').write("\n".join(out) + "\n")
