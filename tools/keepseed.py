#!/usr/bin/env python3
# usage: tools/keepseed.py <seed-dir> <property> <name> "<summary>" "<needs>" "<result of my checks>"
# Stores a confirmed seeded change as /verif/seeded/<property>[-<name>]/ {patch.diff, demo_test.go, meta.json, NOTES.md}
import sys, os, json, shutil
sd, pid, name, summary, needs, result = sys.argv[1:7]
dst = f"/verif/seeded/{pid}" + (f"-{name}" if name else "")
os.makedirs(dst, exist_ok=True)
for f in ("patch.diff", "demo_test.go", "NOTES.md"):
    shutil.copy(os.path.join(sd, f), dst)
demo_dir = open(os.path.join(sd, "DEMO_DIR")).read().strip() if os.path.exists(os.path.join(sd, "DEMO_DIR")) else "decoder"
meta = {
    "property": pid,
    "breaks": summary,
    "needs_to_manifest": needs,
    "demo": {"file": "demo_test.go", "copy_into": demo_dir, "test": "TestSeedDemo"},
    "confirmed": {
        "how": "tools/seedtest.sh: scratch worktree of /repo HEAD; demo passes without the change, fails with it; `go test -vet=off -count=1 ./...` of the library passes with the change; then ./check against the patched worktree (VERIF_REPO)",
        "suite_with_change": "pass", "demo_with_change": "fail", "demo_without_change": "pass",
    },
    "checks": result,
}
json.dump(meta, open(os.path.join(dst, "meta.json"), "w"), indent=1)
print("kept", dst)
