#!/bin/sh
# usage: tools/seedreplays.sh [seed-dir-names...]
# For every kept seeded change: find a generated case on which the change is reported,
# check that the same case HOLDS on the unchanged tree, and keep it as
# replays/<property>/seed-<name>.json (replayed in both tiers at every seed).
cd "$(dirname "$0")/.."
OUT=${VERIF_OUT:-/tmp/verif-alt-out}; export VERIF_OUT=$OUT
CASE=/tmp/seedcase-$$.json
DIRS=${*:-$(ls seeded | grep -v README)}
for n in $DIRS; do
  d=seeded/$n
  [ -f "$d/meta.json" ] || continue
  P=$(python3 -c "import json; print(json.load(open('$d/meta.json'))['property'])")
  dst=replays/$P/seed-$n.json
  [ -f "$dst" ] && { echo "$n: already kept"; continue; }
  got=""
  for s in 1 2 3 4 5 6; do
    rm -rf $OUT
    tools/seedtest.sh "$d" "$P" quick $s >/dev/null 2>&1
    f=$(ls $OUT/replays/$P/found-*.json 2>/dev/null | head -1)
    [ -n "$f" ] && { got=$f; break; }
  done
  [ -z "$got" ] && { echo "$n: no case found at seeds 1-6"; continue; }
  cp "$got" $CASE
  if ./check "$P" --replay $CASE 2>&1 | grep -q "holds on this case"; then
    mkdir -p replays/$P; cp $CASE "$dst"; echo "$n: kept $dst (seed $s)"
  else
    echo "$n: the found case does not hold on the unchanged tree (not kept)"
  fi
done
