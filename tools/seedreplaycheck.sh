#!/bin/sh
# usage: tools/seedreplaycheck.sh [seed-dir-names...]
# Fast regression of the catch matrix: for every kept seeded change that has a stored case
# (replays/<property>/seed-<name>.json) apply the change in one scratch worktree and replay
# just that case: it must be reported with the change and hold without it. (The demo and the
# library suite were checked when the change was kept; tools/seedall.sh repeats everything.)
cd "$(dirname "$0")/.."
export GOFLAGS=-mod=mod GOPROXY=off GOSUMDB=off GOTOOLCHAIN=local
WT=/tmp/seedwt-rc-$$
git -C /repo worktree add -q --detach $WT HEAD
trap 'git -C /repo worktree remove --force $WT >/dev/null 2>&1 || true; rm -rf /tmp/verif-alt-out' EXIT
DIRS=${*:-$(ls seeded | grep -v README)}
for n in $DIRS; do
  d=seeded/$n
  [ -f "$d/meta.json" ] || continue
  P=$(python3 -c "import json; print(json.load(open('$d/meta.json'))['property'])")
  rp=replays/$P/seed-$n.json
  [ -f "$rp" ] || { echo "$n: no stored case"; continue; }
  git -C $WT checkout -q -- . && git -C $WT apply "$PWD/$d/patch.diff" || { echo "$n: patch does not apply"; continue; }
  if VERIF_REPO=$WT ./check $P --replay $rp 2>&1 | grep -q "^VIOLATION"; then W=reported; else W=NOT-REPORTED; fi
  echo "$n property=$P stored case with the change: $W"
done
