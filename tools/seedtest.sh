#!/bin/sh
# usage: tools/seedtest.sh <seed-dir> <property> [tier] [seeds...]
# Applies <seed-dir>/patch.diff in a scratch worktree of /repo, checks that the
# library suite still passes and the demo fails with / passes without the change,
# then runs the property's check against the patched worktree (VERIF_REPO).
set -e
SD=$(cd "$1" && pwd); P=$2; TIER=${3:-quick}; shift; shift; [ $# -gt 0 ] && shift
SEEDS=${*:-1 2 3}
export GOFLAGS=-mod=mod GOPROXY=off GOSUMDB=off GOTOOLCHAIN=local
WT=/tmp/seedwt-$$
git -C /repo worktree add -q $WT HEAD
trap 'git -C /repo worktree remove --force $WT >/dev/null 2>&1 || true' EXIT
DEMO_DIR=$(grep -ioE '(decoder|schema|reference|lang|validator)(/[a-z/]*)?' $SD/NOTES.md | head -1 | sed 's#/$##')
[ -z "$DEMO_DIR" ] && DEMO_DIR=decoder
[ -f "$SD/DEMO_DIR" ] && DEMO_DIR=$(cat $SD/DEMO_DIR)
[ -f "$SD/meta.json" ] && DEMO_DIR=$(python3 -c "import json,sys; print(json.load(open('$SD/meta.json'))['demo']['copy_into'])")
cp $SD/demo_test.go $WT/$DEMO_DIR/zz_seed_demo_test.go
(cd $WT && go test -vet=off -count=1 -run TestSeedDemo ./$DEMO_DIR >/tmp/seed-demo-clean.log 2>&1) && echo "demo without change: PASS" || { echo "demo without change: FAIL"; tail -5 /tmp/seed-demo-clean.log; }
git -C $WT apply $SD/patch.diff
(cd $WT && go test -vet=off -count=1 -run TestSeedDemo ./$DEMO_DIR >/tmp/seed-demo-mut.log 2>&1) && echo "demo with change: PASS (unexpected)" || echo "demo with change: FAIL (expected)"
rm -f $WT/$DEMO_DIR/zz_seed_demo_test.go
(cd $WT && go build ./... && go test -vet=off -count=1 ./... >/tmp/seed-suite.log 2>&1) && echo "suite with change: PASS" || { echo "suite with change: FAIL"; grep -E "^(FAIL|---)" /tmp/seed-suite.log | head; }
for s in $SEEDS; do
  VERIF_REPO=$WT VERIF_SEED=$s /verif/check $P $TIER 2>&1 | grep -E "^(OK|VIOLATION|INCONCLUSIVE|KNOWN)" | cut -c1-140 | sed "s/^/[$P $TIER seed=$s] /"
done
