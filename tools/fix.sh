#!/bin/sh
# usage: tools/fix.sh <property> "<commit message after 'fix: '>" "<what failed>"
set -e
cd /repo
go build ./... 
go test -vet=off -count=1 ./... > /tmp/fixtest.log 2>&1 || { tail -30 /tmp/fixtest.log; echo "REPO TESTS FAIL"; exit 1; }
git add -A
git commit -qm "fix: $2"
SHA=$(git rev-parse --short HEAD)
python3 - "$1" "$SHA" "$3" <<'PY'
import json,sys
p='/verif/known_findings.json'
d=json.load(open(p))
d['findings'].append({"property":sys.argv[1],"kind":"fixed","commit":sys.argv[2],"what":sys.argv[3],"line":"fixed: property=%s %s %s"%(sys.argv[1],sys.argv[2],sys.argv[3])})
json.dump(d,open(p,'w'),indent=1)
PY
echo "committed $SHA"
