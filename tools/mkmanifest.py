#!/usr/bin/env python3
"""Regenerates /verif/MANIFEST.json from the table below (claimed properties)
and properties.jsonl (everything not claimed goes to not_applicable)."""
import json, os

ROOT = os.path.dirname(os.path.dirname(os.path.abspath(__file__)))

TRUST = ("Trusted base: the HCL parsers, go-cty and go-textseg; the harness's own models/oracles (DESIGN.md sections 2-4); "
         "inputs restricted to the documented domain (DESIGN.md section 3). Exploration only: absence is never established.")

# id -> (technique, level text, design ref, level note)
CLAIMS = {
    "C01": ("property-based testing (rapid): generated schema x configuration x edit/typing history x every cursor, each query under recover; native go-fuzz target on raw bytes in the thorough tier",
            "Generated-input search: every public query entry point is called at every byte offset of generated valid, edited, truncated and half-typed files under generated schemas; a panic is a violation, an error value is a pass. Exploration is the right level: the property quantifies over an unbounded input product and the oracle (no panic) is exact.",
            "4/C01", TRUST + " Termination is only covered by the test time limit (a hang is reported as inconclusive)."),
    "C02": ("property-based testing (rapid): generated worlds with layout stress, every query at every character boundary, independent line/column recomputation over every emitted range",
            "Generated-input search with an exact validity predicate: every hcl.Range reachable from every query result must name a file of the reported path, satisfy 0 <= start <= end <= len and carry the line/column that an independent recomputation (newline count + grapheme clusters) assigns to its byte offsets.",
            "4/C02", TRUST + " Ranges inside top-level items whose parser AST is itself inconsistent (unterminated calls) are attributed upstream and not judged; cursors are placed on character boundaries only."),
    "C03": ("property-based testing (rapid), metamorphic: repeat / after-history / fresh-world (reordered queries) / pristine-world equality of canonical results",
            "Metamorphic generated-input search: the same query must render identically across repetitions on one decoder (Go re-randomises map iteration per range statement), after an arbitrary history of other queries, on freshly rebuilt worlds asked in reverse, rotated and original order, and as the very first operation on a never-used world (not even the collectors ran) given the same collected references; wide bodies (>= 13 entries) defeat the accidental stability of small sorts.",
            "4/C03", TRUST + " An order dependence that needs a rare map-iteration order can be missed; the repetition count is the knob."),
    "C04": ("property-based testing (rapid), history-based: deep snapshot of all caller-supplied data taken before anything runs and compared after collection and after every query of a generated history",
            "Generated call histories against a deep structural snapshot (unexported fields, slice spare capacity, pointer graph) of every PathContext and the DecoderContext, first taken on the pristine world before the reference collectors run; any difference after collection or after any later step is a violation.",
            "4/C04", TRUST + " Writes that store identical content are invisible to a snapshot (they are covered by the race detector in C05)."),
    "C05": ("stress property-based testing under the Go race detector (rapid-generated worlds and query multisets; sequential-vs-concurrent differential)",
            "Generated worlds and query lists are executed sequentially and then on 4-32 goroutines sharing PathReader/PathContext/schema (calls dealt out statically, no synchronisation between start and join, so the harness adds no happens-before edges); the binary is built with -race, every concurrent result must equal the sequential one and the snapshot must be unchanged. Exploration: the harness does not control the scheduler.",
            "4/C05", TRUST + " Only interleavings that actually occur are observed; the race detector is precise for those and silent about others."),
    "C17": ("property-based testing (rapid) with a reflection-driven populator over the struct definitions; equality + aliasing (scramble) oracle",
            "Every type with a Copy method is populated field by field through reflection (future fields are covered automatically; an unpopulatable field fails the check), copied, compared structurally and probed for aliasing by scrambling every container of the copy (and of the original) while snapshotting the other side.",
            "4/C17", "Constraints, addresses and cty values are exempt from the aliasing probe as the statement says. Exploration only."),
    "C06": ("property-based testing (rapid): validity predicate over every completion candidate at every cursor; constructed populations around the limit with an exact count; metamorphic left-out probe",
            "Generated-input search with a validity predicate per candidate (edit range vs cursor, tab-stop syntax and numbering) and per list (limit of 100). The complete-flag clause is decided exactly on constructed populations of known size (attributes, block types, labels, functions, object attributes, reference targets, hook candidates, and two-source lists: hook candidates plus functions / reference targets; 0..250 entries, with and without typed prefix and extensions) and metamorphically on generated worlds (a complete list at the limit must contain everything offered after one more typed character).",
            "4/C06", TRUST + " Hook-provided insert text is caller content and not snippet-checked."),
    "C18": ("property-based testing (rapid), metamorphic: translate the file by inserted blank/comment lines and compare every query result up to shifting",
            "Metamorphic generated-input search: result(original, p) with the edited file's ranges shifted equals result(translated, shift(p)) for every query kind and cursor; the parser-level precondition (top-level AST is translated) is checked, not assumed.",
            "4/C18", TRUST + " Insertion in front of the first item is included (results carrying the root body's own extent are mapped onto the translated extent; ambiguous one-line / whole-body / blank files excluded); insertion points inside multi-line tokens are excluded; a cursor the library places outside the parser's root body (leading blanks of line 1) is upstream."),
    "C20": ("property-based testing (rapid) against a reference model built from generator annotations (call parentheses and own commas)",
            "Generated function tables and call trees with recorded structure; soundness (whatever is returned is the innermost enclosing known call with fixed++variadic parameters and the comma-count active index, none beyond the parameters) on all inputs incl. half-typed prefixes, completeness on parse-clean text and, in unfinished text, for calls the parser itself has with both parentheses (cursor directly in their argument list).",
            "4/C20", TRUST + " Don't-care positions: cursor exactly at the opening parenthesis; calls with an empty argument slot."),
    "C14": ("property-based testing (rapid) against a reference outline built from the parser's AST; workspace query over generated path sets with unreadable paths",
            "Generated worlds (with and without schema, unreadable paths, edits) and query strings, and in 25% of cases a structured configuration rendered as HCL JSON under a schema; the expected outline is computed by the harness from HCL's AST and compared node by node with SymbolsInFile, and filtered/concatenated for Decoder.Symbols.",
            "4/C14", TRUST + " JSON files (with schema) are judged through the workspace query, the only entry point that serves them (SymbolsInFile rejects JSON with an error value by design): names, nesting, JSON source order, ranges inside the file and inside the parent; what JSON expressions yield as nested symbols is not judged."),
    "C15": ("property-based testing (rapid) against a reference diagnostics model (effective schema computed on the serialisable model; injected violations at any depth)",
            "Generated schemas and configurations with injected violations; the expected multiset of (severity, summary, subject) is computed by a reference model written from the statement over the model schema (own dependent-body selection and overlay) and the parser's AST, and compared with ValidateFile / Validate.",
            "4/C15", TRUST + " Regions the statement leaves open (dynamic blocks, null/unknown key values, ambiguous two-level keys) are excluded from both sides and counted; inside a block whose key attribute is written without static value the clause 'nothing is reported as unexpected' is still enforced for its direct items."),
    "C12": ("property-based testing (rapid): validity predicate on every hover result plus a reference model for names, block types and labels (effective schema on the serialisable model, cursor classified on the parser AST) and a constraint-directed value model for the innermost-literal clause",
            "Every cursor of generated valid, edited and half-typed files: a hover is an error/nothing or non-empty content with a valid range containing the cursor; on attribute names, block types and labels the content, description (static + selected dependent body) and range are compared with the model; unknown elements must yield nothing; inside values the range must stay inside the value, and a cursor inside a literal of a value whose shape fits its constraint (constructors with literal / non-literal keys, known calls, operators, conditionals, parentheses, index keys; partial per element) must be described by exactly that literal.",
            "4/C12", TRUST + " Beyond literals (references, calls, keys) the sub-expression a value hover describes is bounded by range containment only. One known finding (literal inside a constructor that is a branch of a conditional) is listed in known_findings.json."),
    "C13": ("property-based testing (rapid): ordering/disjointness invariants on all files; structural-token exactness and literal tokens against a reference model",
            "Generated files incl. broken ones: tokens sorted, disjoint, non-empty, advertised types, deterministic. Against the model: attribute-name / block-type / label tokens are exactly the schema-known elements with inherited modifiers, nothing marks unknown attributes / blocks / surplus labels, value tokens stay inside known values, and an exact value-token model (literals, keywords, type names, map and object keys, known function names, literals under operators / conditionals / parentheses / index keys; reference steps optional; partial per element) is compared for every value whose shape fits its constraint.",
            "4/C13", TRUST + " Value tokens are compared one by one for values whose shape fits their constraint (literals, keywords, type names, map / object keys, known function names); whether a reference step is marked depends on resolution and is only bounded here."),
    "C07": ("property-based testing (rapid) against a reference model of the effective schema (own dependent-body selection and overlay on the serialisable model); acceptance relation by applying candidates and re-validating",
            "Generated schema/configuration pairs with sprinkled blank lines and half-typed names; every cursor is classified on the parser AST and the ordered candidate list is compared with the model (attributes, count/for_each, block types still declarable with the typed prefix; dependent-body label values inside completable labels). Sampled candidates are applied and the file re-validated.",
            "4/C07", TRUST + " Exactness is judged only where error recovery cannot have reshaped the body (parse errors tolerated on the cursor line and on lone-identifier lines); `dynamic` and the any-attribute placeholder are don't-care."),
    "C16": ("property-based testing (rapid): permutation/collision relations on schema keys; constructed dependent-body scenarios with a marker per body and cross-feature agreement",
            "Key level: NewSchemaKey is compared across permutations and across different key sets (canonical form computed by the harness). Feature level: for a constructed block with dependent bodies registered under permuted key sets and an instance written to select one, hover, tokens, validation, targets, origins, completion and links must all reflect exactly the body the reference model (and the construction) selects.",
            "4/C16", TRUST + " The scenario covers label keys, attribute keys (literal, default, reference) and a second level keyed by an attribute of a first-level body (written, defaulted, unregistered value) and key attributes written as expressions without static value (no body may be selected); arbitrary schemas with two-level bodies are additionally exercised by C03/C04/C13/C15."),
    "C10": ("property-based testing (rapid): differential against HCL's own Variables() on the places a reference model (constraint-directed structural descent on the serialisable schema) says admit references",
            "Generated schemas and type-correct, reference-heavy expressions; the expected set of (address, range) is computed from HCL's Variables() restricted to admitting places of the effective schema and compared with CollectReferenceOrigins (local origins exactly, ordering, path and direct origins).",
            "4/C10", TRUST + " Statement-silent classes (for iterator variables, arguments of unknown / parameterless functions, surplus arguments, key expressions, dynamic blocks) are don't-care regions."),
    "C09": ("property-based testing (rapid) against a reference model of addressable declarations (addresses from declared steps, body types, extents from the parser AST) plus structural rules on the collected tree",
            "Generated schemas with every addressing form and generated configurations; completeness (each addressable declaration of the effective schema yields its target with the modelled address / scope / type / range / definition range), soundness (each collected target is explained by an addressable declaration and carries its address; nothing for unknown items) and structure (nested address = parent + one step, list indexes in source order, own extents); 20% of cases judge the position clause on one configuration rendered natively and as JSON with hand-made layout.",
            "4/C09", TRUST + " One known finding (D21, first element of a block group) is listed in known_findings.json; types of expression-typed attributes are only modelled for plain literals (under a one-of: when the members admitting the literal agree and all other members are of kinds that declare no targets); every targetable of the effective schema is an expected target."),
    "C11": ("property-based testing (rapid) over Terraform-like worlds with resolving references; independent matching predicate (necessary / sufficient conditions) and the go-to-definition / find-references inverse relation",
            "For every collected origin, go-to-definition is judged sound and complete against a matching predicate written from the statement (address equality / dynamic prefix / block-local containment / scope and type constraints, target path), and find-references at each reported definition must list the origin; find-references results must themselves be collected origins pointing into the queried path that denote a declaration at the position.",
            "4/C11", TRUST + " The sets of targets and origins are the collectors' own output (their exactness is C09/C10). Worlds have 1-3 paths; in three-path worlds the third is a twin of the first (same file names and ranges) so that origins of different paths collide on everything but the path."),
    "C19": ("property-based testing (rapid), differential: one structured configuration rendered in native and in JSON syntax, reference graph and outline compared",
            "One generated configuration model (any-expression, reference, self-addressing reference, one-of(reference, literal), list, map, object and literal constraints, a second-level dependency key; interpolated and legacy bare-string references; JSON with regular or hand-made layout) is rendered twice; absolute targets (address, type, scope, nesting), origin addresses with constraints up to the documented any-type fallback, and the block/attribute outline must agree between the two syntaxes.",
            "4/C19", TRUST + " Only schema-known attributes are written (JSON cannot tell unknown attributes from blocks), and where a reference and a string literal are both admitted the literals are strings that are no traversal (JSON cannot tell them from a legacy reference); ranges and block-local targets are ignored as the statement says. One known finding (escaped string index under a Reference constraint) is listed in known_findings.json."),
    "C08": ("property-based testing (rapid): validity predicate per value-completion candidate against the collected declarations and the attribute's constraint; round trip through go-to-definition",
            "Terraform-like worlds with resolving references and half-typed values; every candidate inside an attribute value is judged: reference candidates are addresses of collected declarations, insert text that reads back as a traversal denoting the label, start with the typed text, are visible (block-local names, self.*), are not the edited attribute and fit the expected scope/type where known; function candidates are known functions with convertible return type; accepted reference candidates resolve back through go-to-definition.",
            "4/C08", TRUST + " Soundness of candidates only ('offers only what fits'); the expected scope/type is judged where the value is a plain traversal or empty, inside an interpolation of a template under an any-expression (a string is expected), and inside the parentheses of a call of a known function (the parameter of the comma-counted argument slot decides), and inside object constructors (the attribute of the item under the cursor decides; an item whose key is no literal name admits no reference / function / boolean candidate)."),
}

def main():
    props = [json.loads(l) for l in open(os.path.join(ROOT, "properties.jsonl"))]
    checks, na = [], []
    for p in props:
        pid = p["id"]
        if pid in CLAIMS:
            tech, text, ref, note = CLAIMS[pid]
            checks.append({
                "property_id": pid,
                "quick_cmd": "./check %s quick" % pid,
                "thorough_cmd": "./check %s thorough" % pid,
                "evidence_file": "/verif/evidence/%s.json" % pid,
                "replay_cmd_template": "./check %s --replay {path}" % pid,
                "engine": "rapid-props",
                "level_claimed": {"category": "exploration", "text": text, "design_ref": "DESIGN.md section " + ref},
                "level_note": note,
                "technique": tech,
            })
        else:
            na.append({"property_id": pid, "reason": NA.get(pid, "check not built yet; planned as property-based test per DESIGN.md section 4")})
    man = {
        "version": 1,
        "setup_cmd": "cd /verif/harness && GOFLAGS=-mod=mod GOPROXY=off GOSUMDB=off GOTOOLCHAIN=local go build -o /verif/bin/vcheck ./cmd/vcheck",
        "hooks": {
            "guard": "verif",
            "enable": "go test -tags verif (the harness module replaces github.com/hashicorp/hcl-lang with /repo's working tree)",
            "baseline_off_cmd": "cd /repo && go test -vet=off -count=1 ./...",
            "source_commits": HOOK_COMMITS,
            "add_only": True,
        },
        "engines": [
            {"name": "rapid-props", "path": "/verif/harness/props", "serves_properties": sorted(CLAIMS.keys()),
             "kind_free_text": "pgregory.net/rapid v1.3.0 property tests (one pure check function per property, JSON replay cases) plus native go test -fuzz targets, driven by /verif/harness/cmd/vcheck"},
        ],
        "checks": checks,
        "not_applicable": na,
        "notes": "All checks rebuild the property test binary against /repo's current working tree through a replace directive. Exit codes: 0 held, 1 violation (VIOLATION line), 2 inconclusive. Known findings and fixed defects: /verif/known_findings.json.",
    }
    json.dump(man, open(os.path.join(ROOT, "MANIFEST.json"), "w"), indent=1)
    print("claimed:", len(checks), "not applicable:", len(na))

NA = {}
HOOK_COMMITS = []

if __name__ == "__main__":
    main()
