package refmodel

import (
	"fmt"
	"sort"

	"github.com/hashicorp/hcl/v2"
	"github.com/hashicorp/hcl/v2/hclsyntax"
	"github.com/zclconf/go-cty/cty"
	"github.com/zclconf/go-cty/cty/convert"

	m "verif/harness/model"
)

// Origin is a reference origin in comparable form.
type Origin struct {
	Addr  string
	Start int
	End   int
}

func (o Origin) String() string { return fmt.Sprintf("%s@%d-%d", o.Addr, o.Start, o.End) }

// OriginModel is what the statement determines about the local origins of a file.
type OriginModel struct {
	Expected []Origin // must be reported exactly once each
	DontCare []Region // origins inside these regions are neither required nor forbidden
	Path     []Origin // path origins (OriginForTarget): address + range of the attribute name
	Direct   []Region // direct origins: range of the key attribute's expression
	Classes  map[string]bool
}

func traversalOrigin(tr hcl.Traversal) (Origin, bool) {
	if tr.IsRelative() {
		return Origin{}, false
	}
	addr, ok := traversalString(tr)
	if !ok {
		return Origin{}, false
	}
	r := tr.SourceRange()
	return Origin{Addr: addr, Start: r.Start.Byte, End: r.End.Byte}, true
}

type originWalker struct {
	om    *OriginModel
	funcs map[string]m.FuncM
}

func regionOf(r hcl.Range) Region { return Region{r.Start.Byte, r.End.Byte} }

func inRegion(rs []Region, s, e int) bool {
	for _, r := range rs {
		if s >= r.Start && e <= r.End {
			return true
		}
	}
	return false
}

// anyExpr handles a place that admits an arbitrary expression: every traversal
// HCL itself finds in it, minus the classes the statement leaves open.
func (w *originWalker) anyExpr(expr hclsyntax.Expression, selfRefs bool) {
	// regions the statement does not decide
	_ = hclsyntax.VisitAll(expr, func(n hclsyntax.Node) hcl.Diagnostics {
		switch e := n.(type) {
		case *hclsyntax.ForExpr:
			// iterator variables: not "references" in HCL's sense, the library may still report them
			w.om.DontCare = append(w.om.DontCare, regionOf(e.Range()))
			w.om.Classes["for-expression"] = true
		case *hclsyntax.FunctionCallExpr:
			f, known := w.funcs[e.Name]
			if !known {
				w.om.DontCare = append(w.om.DontCare, regionOf(e.Range()))
				w.om.Classes["unknown-function"] = true
				break
			}
			w.om.Classes["known-function-argument"] = true
			max := len(f.Params)
			for i, a := range e.Args {
				if i >= max && f.VarParam == nil {
					w.om.DontCare = append(w.om.DontCare, regionOf(a.Range())) // surplus argument
					continue
				}
				// an argument is a place that admits an expression of the parameter's type: parts
				// of it that cannot have that type (an object item the type does not declare, ...)
				// are as undecided as they are directly under an attribute
				if i < max {
					w.illTyped(a, f.Params[i].Ty.Cty())
				} else {
					w.illTyped(a, f.VarParam.Ty.Cty())
				}
			}
			if len(f.Params) == 0 && f.VarParam == nil {
				w.om.DontCare = append(w.om.DontCare, regionOf(e.Range()))
			}
		case *hclsyntax.ObjectConsKeyExpr:
			w.om.DontCare = append(w.om.DontCare, regionOf(e.Range()))
		case *hclsyntax.TemplateExpr:
			w.om.Classes["template"] = true
		case *hclsyntax.ConditionalExpr:
			w.om.Classes["conditional"] = true
		case *hclsyntax.BinaryOpExpr, *hclsyntax.UnaryOpExpr:
			w.om.Classes["operator"] = true
		case *hclsyntax.IndexExpr:
			w.om.Classes["index"] = true
		case *hclsyntax.SplatExpr:
			w.om.Classes["splat"] = true
		}
		return nil
	})
	for _, tr := range expr.Variables() {
		o, ok := traversalOrigin(tr)
		if !ok {
			continue
		}
		if tr.RootName() == "self" && !selfRefs {
			continue
		}
		w.om.Expected = append(w.om.Expected, o)
	}
}

// cons handles an attribute value under a constraint.
func (w *originWalker) cons(c m.ConsM, expr hclsyntax.Expression, selfRefs bool) {
	switch c.K {
	case "any":
		w.illTyped(expr, c.Ty.Cty())
		w.anyExpr(expr, selfRefs)
	case "oneof-foreach":
		// for_each admits a map or a set: an operation (whose result is a number or a boolean)
		// cannot have such a type - an ill-typed part like under any other typed place
		inner := expr
		for {
			pe, ok := inner.(*hclsyntax.ParenthesesExpr)
			if !ok {
				break
			}
			inner = pe.Expression
		}
		switch inner.(type) {
		case *hclsyntax.BinaryOpExpr, *hclsyntax.UnaryOpExpr:
			w.om.DontCare = append(w.om.DontCare, regionOf(expr.Range()))
			w.om.Classes["ill-typed-operator"] = true
		}
		w.anyExpr(expr, selfRefs)
	case "ref":
		if te, ok := expr.(*hclsyntax.ScopeTraversalExpr); ok {
			if o, ok := traversalOrigin(te.Traversal); ok && (te.Traversal.RootName() != "self" || selfRefs) {
				w.om.Expected = append(w.om.Expected, o)
				w.om.Classes["reference-constraint"] = true
			}
		} else if len(expr.Variables()) > 0 {
			// something other than a plain reference where only a reference is admitted:
			// soundness side (nothing may be reported), unless it is a quoted legacy reference
			w.om.Classes["non-admitting-place-with-traversal"] = true
		}
	case "list", "set":
		tc, ok := expr.(*hclsyntax.TupleConsExpr)
		if !ok || c.Elem == nil {
			w.noteNonAdmitting(expr)
			return
		}
		w.om.Classes["inside-collection"] = true
		for _, e := range tc.Exprs {
			w.cons(*c.Elem, e, selfRefs)
		}
	case "tuple":
		tc, ok := expr.(*hclsyntax.TupleConsExpr)
		if !ok {
			w.noteNonAdmitting(expr)
			return
		}
		for i, e := range tc.Exprs {
			if i < len(c.Elems) {
				w.cons(c.Elems[i], e, selfRefs)
			} else {
				w.om.DontCare = append(w.om.DontCare, regionOf(e.Range()))
			}
		}
	case "map":
		oc, ok := expr.(*hclsyntax.ObjectConsExpr)
		if !ok || c.Elem == nil {
			w.noteNonAdmitting(expr)
			return
		}
		w.om.Classes["inside-collection"] = true
		for _, it := range oc.Items {
			w.om.DontCare = append(w.om.DontCare, regionOf(it.KeyExpr.Range()))
			w.cons(*c.Elem, it.ValueExpr, selfRefs)
		}
	case "object":
		oc, ok := expr.(*hclsyntax.ObjectConsExpr)
		if !ok {
			w.noteNonAdmitting(expr)
			return
		}
		w.om.Classes["inside-collection"] = true
		for _, it := range oc.Items {
			w.om.DontCare = append(w.om.DontCare, regionOf(it.KeyExpr.Range()))
			key, _ := it.KeyExpr.Value(nil)
			if key.IsNull() || !key.IsWhollyKnown() || key.Type() != cty.String {
				w.om.DontCare = append(w.om.DontCare, regionOf(it.ValueExpr.Range()))
				continue
			}
			if a, ok := c.Attrs[key.AsString()]; ok {
				w.cons(a.Cons, it.ValueExpr, selfRefs)
			} else {
				w.noteNonAdmitting(it.ValueExpr) // unknown object attribute
			}
		}
	case "oneof":
		// each branch may admit references; an origin is reported once however many branches admit it
		for _, b := range c.Elems {
			w.cons(b, expr, selfRefs)
		}
	default:
		// literal type / literal value / keyword / type declaration: reserved, nothing is an origin
		w.noteNonAdmitting(expr)
	}
}

func (w *originWalker) noteNonAdmitting(expr hclsyntax.Expression) {
	if len(expr.Variables()) > 0 {
		w.om.Classes["non-admitting-place-with-traversal"] = true
	}
}

// ExpectedOrigins computes the origin model of one file.
func ExpectedOrigins(root *m.BodyM, body *hclsyntax.Body, funcs map[string]m.FuncM) OriginModel {
	om := OriginModel{Classes: map[string]bool{}}
	w := &originWalker{om: &om, funcs: funcs}
	WalkBodies(root, body, func(bc *BodyCtx) {
		if bc.Undetermined {
			if bc.Block != nil {
				om.DontCare = append(om.DontCare, BlockExtent(bc.Block))
			}
			return
		}
		if bc.Schema == nil {
			return
		}
		s := bc.Schema
		for _, b := range bc.Body.Blocks {
			if b.Type == "dynamic" && bc.DynamicOn {
				om.DontCare = append(om.DontCare, BlockExtent(b))
			}
		}
		for _, name := range sortedAttrNames(bc.Body.Attributes) {
			a := bc.Body.Attributes[name]
			isExt := s.Ext != nil && (s.Ext.Count && name == "count" || s.Ext.ForEach && name == "for_each")
			sa, declared := s.Attrs[name]
			if declared && isExt {
				om.DontCare = append(om.DontCare, regionOf(a.SrcRange))
				continue
			}
			var as *m.AttrM
			switch {
			case isExt && name == "count":
				as = &m.AttrM{Cons: m.ConsM{K: "any", Ty: m.TyOf(cty.Number)}}
			case isExt:
				as = &m.AttrM{Cons: m.ConsM{K: "oneof-foreach"}}
			case declared:
				as = &sa
			case s.AnyAttr != nil:
				as = s.AnyAttr
			}
			if as == nil {
				w.noteNonAdmitting(a.Expr) // unknown attribute
				if len(a.Expr.Variables()) > 0 {
					om.Classes["unknown-attribute-with-traversal"] = true
				}
				continue
			}
			if as.OriginFor != nil {
				addr := ""
				ok := len(as.OriginFor.Steps) > 0
				for i, st := range as.OriginFor.Steps {
					n := st.Name
					if st.K == "attrname" {
						n = name
					}
					if i == 0 {
						addr = n
					} else {
						addr += "." + n
					}
				}
				if ok {
					om.Path = append(om.Path, Origin{Addr: addr, Start: a.NameRange.Start.Byte, End: a.NameRange.End.Byte})
				}
			}
			if as.DepKey && s.Targets != nil {
				om.Direct = append(om.Direct, regionOf(a.Expr.Range()))
			}
			w.cons(as.Cons, a.Expr, bc.SelfRefs)
		}
	})
	// an origin written once is expected once, however many one-of branches admit it
	seen := map[string]bool{}
	var uniq []Origin
	for _, o := range om.Expected {
		if !seen[o.String()] {
			seen[o.String()] = true
			uniq = append(uniq, o)
		}
	}
	sort.Slice(uniq, func(i, j int) bool { return uniq[i].Start < uniq[j].Start })
	om.Expected = uniq
	return om
}

// illTyped marks as don't-care the parts of an expression that cannot have the
// expected type: the statement speaks of places that admit an expression of the
// constraint's type; what the library does with ill-typed parts (an operator
// whose result cannot convert, an object item the type does not declare, a
// surplus tuple element) is not decided.
func (w *originWalker) illTyped(expr hclsyntax.Expression, ty cty.Type) {
	if ty == cty.NilType || ty == cty.DynamicPseudoType {
		return
	}
	switch e := expr.(type) {
	case *hclsyntax.ParenthesesExpr:
		w.illTyped(e.Expression, ty)
	case *hclsyntax.BinaryOpExpr:
		if e.Op == nil {
			return
		}
		if _, err := convert.Convert(cty.UnknownVal(e.Op.Type), ty); err != nil {
			w.om.DontCare = append(w.om.DontCare, regionOf(e.Range()))
			w.om.Classes["ill-typed-operator"] = true
			return
		}
		if ps := e.Op.Impl.Params(); len(ps) == 2 {
			w.illTyped(e.LHS, ps[0].Type)
			w.illTyped(e.RHS, ps[1].Type)
		}
	case *hclsyntax.UnaryOpExpr:
		if e.Op == nil {
			return
		}
		if _, err := convert.Convert(cty.UnknownVal(e.Op.Type), ty); err != nil {
			w.om.DontCare = append(w.om.DontCare, regionOf(e.Range()))
			w.om.Classes["ill-typed-operator"] = true
			return
		}
		if ps := e.Op.Impl.Params(); len(ps) == 1 {
			w.illTyped(e.Val, ps[0].Type)
		}
	case *hclsyntax.ConditionalExpr:
		w.illTyped(e.Condition, cty.Bool)
		w.illTyped(e.TrueResult, ty)
		w.illTyped(e.FalseResult, ty)
	case *hclsyntax.TupleConsExpr:
		switch {
		case ty.IsListType() || ty.IsSetType():
			for _, x := range e.Exprs {
				w.illTyped(x, ty.ElementType())
			}
		case ty.IsTupleType():
			ets := ty.TupleElementTypes()
			for i, x := range e.Exprs {
				if i < len(ets) {
					w.illTyped(x, ets[i])
				} else {
					w.om.DontCare = append(w.om.DontCare, regionOf(x.Range()))
				}
			}
		default:
			// a collection where a non-collection is expected
			w.om.DontCare = append(w.om.DontCare, regionOf(e.Range()))
		}
	case *hclsyntax.ObjectConsExpr:
		switch {
		case ty.IsMapType():
			for _, it := range e.Items {
				w.illTyped(it.ValueExpr, ty.ElementType())
			}
		case ty.IsObjectType():
			for _, it := range e.Items {
				key, _ := it.KeyExpr.Value(nil)
				if key.IsNull() || !key.IsWhollyKnown() || key.Type() != cty.String || !ty.HasAttribute(key.AsString()) {
					w.om.DontCare = append(w.om.DontCare, regionOf(it.ValueExpr.Range()))
					continue
				}
				w.illTyped(it.ValueExpr, ty.AttributeType(key.AsString()))
			}
		default:
			w.om.DontCare = append(w.om.DontCare, regionOf(e.Range()))
		}
	}
}
