package refmodel

import (
	"fmt"
	"sort"

	"github.com/hashicorp/hcl/v2"
	"github.com/hashicorp/hcl/v2/hclsyntax"

	m "verif/harness/model"
)

// Diag is one expected / actual diagnostic in comparable form.
type Diag struct {
	Error   bool
	Summary string
	File    string
	Start   int
	End     int
}

func (d Diag) String() string {
	sev := "warning"
	if d.Error {
		sev = "error"
	}
	return fmt.Sprintf("%s %q @%s:%d-%d", sev, d.Summary, d.File, d.Start, d.End)
}

func diagAt(err bool, summary string, r hcl.Range) Diag {
	return Diag{Error: err, Summary: summary, File: r.Filename, Start: r.Start.Byte, End: r.End.Byte}
}

// Region is a byte region of a file in which the statement does not determine
// the diagnostics (dynamic blocks, undetermined dependent-body selection).
type Region struct{ Start, End int }

// ExpectedDiagnostics computes, from the property statement, the diagnostics the
// stock validators must report for a file, plus the regions that are not decided.
func ExpectedDiagnostics(root *m.BodyM, body *hclsyntax.Body) (diags []Diag, ignore []Region, dontCare []Diag) {
	WalkBodies(root, body, func(bc *BodyCtx) {
		if bc.Undetermined {
			if bc.Block != nil {
				ignore = append(ignore, BlockExtent(bc.Block))
			}
			return
		}
		if bc.Schema == nil {
			return // no effective schema: nothing can be said about the content
		}
		s := bc.Schema
		ext := s.Ext
		// attributes
		for _, name := range sortedAttrNames(bc.Body.Attributes) {
			a := bc.Body.Attributes[name]
			var as *m.AttrM
			if sa, ok := s.Attrs[name]; ok {
				as = &sa
			} else if s.AnyAttr != nil {
				as = s.AnyAttr
			}
			isExt := ext != nil && (ext.Count && name == "count" || ext.ForEach && name == "for_each")
			if isExt {
				continue // extension attributes are known and never deprecated
			}
			if as == nil {
				if bc.Known {
					diags = append(diags, diagAt(true, "Unexpected attribute", a.SrcRange))
				}
				continue
			}
			if as.Deprecated {
				diags = append(diags, diagAt(false, fmt.Sprintf("%q is deprecated", name), a.SrcRange))
			}
		}
		// required attributes
		for _, name := range sortedKeys(s.Attrs) {
			if s.Attrs[name].Required() {
				if _, ok := bc.Body.Attributes[name]; !ok {
					diags = append(diags, diagAt(true, fmt.Sprintf("Required attribute %q not specified", name), bc.Body.SrcRange))
				}
			}
		}
		// blocks
		found := map[string]uint64{}
		dynamicFor := map[string]bool{}
		for _, b := range bc.Body.Blocks {
			found[b.Type]++
			if b.Type == "dynamic" && len(b.Labels) > 0 {
				dynamicFor[b.Labels[0]] = true
			}
			if b.Type == "dynamic" && bc.DynamicOn {
				// whether the synthetic dynamic block exists here (and whether it
				// shadows a declared block type of that name) is not decided
				ignore = append(ignore, BlockExtent(b))
				continue
			}
			bs, ok := s.Blocks[b.Type]
			if !ok {
				if bc.Known {
					diags = append(diags, diagAt(true, "Unexpected block", b.TypeRange))
				}
				continue
			}
			if bs.Deprecated {
				diags = append(diags, diagAt(false, fmt.Sprintf("%q is deprecated", b.Type), b.TypeRange))
			}
			for i := range b.Labels {
				if i >= len(bs.Labels) {
					diags = append(diags, diagAt(true, fmt.Sprintf("Too many labels specified for %q", b.Type), b.LabelRanges[i]))
				}
			}
			if len(bs.Labels) > len(b.Labels) {
				diags = append(diags, diagAt(true, fmt.Sprintf("Not enough labels specified for %q", b.Type), b.TypeRange))
			}
		}
		for _, t := range sortedKeys(s.Blocks) {
			bs := s.Blocks[t]
			if t == "dynamic" && bc.DynamicOn {
				dontCare = append(dontCare,
					diagAt(true, fmt.Sprintf("Too many blocks specified for %q", t), bc.Body.SrcRange),
					diagAt(true, fmt.Sprintf("Too few blocks specified for %q", t), bc.Body.SrcRange))
				continue
			}
			if bs.Max != 0 && found[t] > bs.Max {
				diags = append(diags, diagAt(true, fmt.Sprintf("Too many blocks specified for %q", t), bc.Body.SrcRange))
			}
			if bs.Min != 0 && found[t] < bs.Min {
				if bc.DynamicOn && dynamicFor[t] {
					if s.Ext == nil || !s.Ext.Dynamic {
						// the extension is only inherited from an enclosing body: whether the
						// dynamic block counts here is not decided by the statement
						dontCare = append(dontCare, diagAt(true, fmt.Sprintf("Too few blocks specified for %q", t), bc.Body.SrcRange))
					}
					continue // a dynamic block of that type satisfies the minimum
				}
				diags = append(diags, diagAt(true, fmt.Sprintf("Too few blocks specified for %q", t), bc.Body.SrcRange))
			}
		}
	})
	return diags, ignore, dontCare
}

func sortedAttrNames(a hclsyntax.Attributes) []string {
	out := make([]string, 0, len(a))
	for n := range a {
		out = append(out, n)
	}
	sort.Strings(out)
	return out
}

func sortedKeys[V any](mp map[string]V) []string {
	out := make([]string, 0, len(mp))
	for k := range mp {
		out = append(out, k)
	}
	sort.Strings(out)
	return out
}

// UnexpectedForbidden lists the items (attribute extents, block type keywords) that sit directly
// in a block whose dependent body cannot be resolved because a key attribute is written with an
// expression that has no static value: nothing may be reported as unexpected there.
func UnexpectedForbidden(root *m.BodyM, body *hclsyntax.Body) []Region {
	var out []Region
	WalkBodies(root, body, func(bc *BodyCtx) {
		if bc.Block == nil || !bc.Sel.Unresolvable || bc.Body == nil {
			return
		}
		if bc.Parent != nil && (bc.Parent.Undetermined || !bc.Parent.Known) {
			return
		}
		for _, a := range bc.Body.Attributes {
			out = append(out, Region{a.SrcRange.Start.Byte, a.SrcRange.End.Byte})
		}
		for _, b := range bc.Body.Blocks {
			out = append(out, Region{b.TypeRange.Start.Byte, b.TypeRange.End.Byte})
		}
	})
	return out
}
