package refmodel

import (
	"github.com/hashicorp/hcl/v2"
	"github.com/hashicorp/hcl/v2/hclsyntax"
	"github.com/zclconf/go-cty/cty"

	m "verif/harness/model"
)

// BodyCtx is the effective schema of one body of the configuration, computed
// from the model (static body overlaid with the selected dependent body).
type BodyCtx struct {
	Body *hclsyntax.Body
	// Schema is nil when the body belongs to a block unknown to the schema or
	// to a block whose schema has neither a static nor a selected dependent body.
	Schema *m.BodyM
	// Known is false when nothing may be reported as unexpected inside (a
	// dependent body could not be fully resolved here or further up, or the
	// block schema has no static body).
	Known bool
	// Undetermined is true when the statement does not determine the effective
	// schema (dynamic blocks, null/unknown key values, ambiguous two-level keys).
	Undetermined bool
	// SelfRefs is true when self.* references are enabled for this body.
	SelfRefs bool
	// DynamicOn is true when the dynamic-blocks extension is in force here: enabled
	// by this body or inherited from an enclosing body that enables it.
	DynamicOn bool
	Depth     int
	Block     *hclsyntax.Block // enclosing block (nil for the root body)
	BlockM    *m.BlockM        // its schema (nil for the root body or unknown blocks)
	Sel       Selection
	Parent    *BodyCtx
}

// Effective computes the effective schema of a block's body.
func Effective(bl m.BlockM, block *hclsyntax.Block) (eff *m.BodyM, sel Selection) {
	sel = Select(bl, block)
	var dep *m.BodyM
	if sel.Index >= 0 {
		dep = &bl.Deps[sel.Index].Body
	}
	if bl.Body == nil && dep == nil {
		return nil, sel
	}
	e := Overlay(bl.Body, dep)
	return &e, sel
}

// WalkBodies calls f for every body of the file with its effective schema.
func WalkBodies(root *m.BodyM, body *hclsyntax.Body, f func(bc *BodyCtx)) {
	bc := &BodyCtx{Body: body, Schema: root, Known: root != nil, Sel: Selection{Index: -1, Level1: -1}}
	if root != nil && root.Ext != nil {
		bc.SelfRefs = root.Ext.SelfRefs
		bc.DynamicOn = root.Ext.Dynamic
	}
	walkBodies(bc, f)
}

func walkBodies(bc *BodyCtx, f func(bc *BodyCtx)) {
	f(bc)
	for _, blk := range bc.Body.Blocks {
		if blk.Body != nil {
			walkBodies(childCtx(bc, blk), f)
		}
	}
}

// childCtx computes the context of the body of blk, a block written in bc.Body.
func childCtx(bc *BodyCtx, blk *hclsyntax.Block) *BodyCtx {
	child := &BodyCtx{Body: blk.Body, Depth: bc.Depth + 1, Block: blk, Parent: bc, Undetermined: bc.Undetermined, DynamicOn: bc.DynamicOn, Sel: Selection{Index: -1, Level1: -1}}
	if bc.Schema == nil {
		return child
	}
	if blk.Type == "dynamic" && bc.DynamicOn {
		// synthetic dynamic block: the statement only says that it exists;
		// everything below is only partially modelled
		child.Undetermined = true
		return child
	}
	if bm, ok := bc.Schema.Blocks[blk.Type]; ok {
		bmc := bm
		child.BlockM = &bmc
		eff, sel := Effective(bm, blk)
		child.Schema = eff
		child.Sel = sel
		child.Known = bc.Known && (!sel.HasKeys || sel.Resolved)
		if sel.Undetermined {
			child.Undetermined = true
		}
		if eff != nil && eff.Ext != nil {
			child.SelfRefs = eff.Ext.SelfRefs
			if eff.Ext.Dynamic {
				child.DynamicOn = true
			}
		}
		if bm.Body != nil && bm.Body.Ext != nil && bm.Body.Ext.Dynamic {
			// the static body enables dynamic blocks while the selected dependent body
			// replaces the extensions: whether `dynamic` is available is not decided
			child.DynamicOn = true
		}
	}
	return child
}

// Loc describes what is under a cursor.
type Loc struct {
	BC       *BodyCtx
	Kind     string // attrName|attrValue|attrEquals|blockType|label|blockHeader|bodyWhitespace|outside
	Attr     *hclsyntax.Attribute
	Block    *hclsyntax.Block
	LabelIdx int
}

func contains(r hcl.Range, b int) bool { return b >= r.Start.Byte && b < r.End.Byte }

// Locate finds the innermost body containing the byte offset and classifies the position.
func Locate(root *m.BodyM, body *hclsyntax.Body, off int) Loc {
	bc := &BodyCtx{Body: body, Schema: root, Known: root != nil, Sel: Selection{Index: -1, Level1: -1}}
	if root != nil && root.Ext != nil {
		bc.SelfRefs = root.Ext.SelfRefs
		bc.DynamicOn = root.Ext.Dynamic
	}
	return locateIn(bc, off)
}

func locateIn(bc *BodyCtx, off int) Loc {
	loc := Loc{BC: bc, Kind: "bodyWhitespace", LabelIdx: -1}
	for _, a := range bc.Body.Attributes {
		er := a.Expr.Range()
		if lv, ok := a.Expr.(*hclsyntax.LiteralValueExpr); ok && lv.Val == cty.DynamicVal && er.End.Line > er.Start.Line && er.End.Byte > 0 {
			// the range of an empty value runs up to the start of the next line,
			// which belongs to the body (or the next item), not to the value
			er.End.Byte--
		}
		switch {
		case off >= a.NameRange.Start.Byte && off <= a.NameRange.End.Byte:
			loc.Kind, loc.Attr = "attrName", a
			return loc
		case off > a.NameRange.End.Byte && off < a.EqualsRange.End.Byte:
			loc.Kind, loc.Attr = "attrEquals", a
			return loc
		case off >= a.EqualsRange.End.Byte && er.End.Byte >= er.Start.Byte && off <= er.End.Byte && a.EqualsRange.End.Byte > 0:
			loc.Kind, loc.Attr = "attrValue", a
			return loc
		}
	}
	for _, b := range bc.Body.Blocks {
		br := b.Range()
		if off < b.TypeRange.Start.Byte || br.End.Byte < br.Start.Byte || off > br.End.Byte {
			continue
		}
		loc.Block = b
		if off <= b.TypeRange.End.Byte {
			loc.Kind = "blockType"
			return loc
		}
		for i, lr := range b.LabelRanges {
			if off >= lr.Start.Byte && off <= lr.End.Byte {
				loc.Kind, loc.LabelIdx = "label", i
				return loc
			}
		}
		if b.OpenBraceRange.Empty() || off < b.OpenBraceRange.End.Byte {
			loc.Kind = "blockHeader"
			return loc
		}
		if b.CloseBraceRange.Empty() || b.CloseBraceRange.Start.Byte < b.OpenBraceRange.End.Byte {
			// unterminated block: the parser's recovery decides what is inside
			loc.Kind = "blockHeader"
			return loc
		}
		if off <= b.CloseBraceRange.Start.Byte {
			if b.Body == nil {
				loc.Kind = "blockHeader"
				return loc
			}
			if br := b.Body.Range(); off < br.Start.Byte || off > br.End.Byte {
				// between the braces, yet outside the body's own range: error
				// recovery truncated the body; what is here is the parser's business
				loc.Kind = "blockHeader"
				return loc
			}
			return locateIn(childCtx(bc, b), off)
		}
		loc.Kind = "blockHeader" // on / right after the closing brace
		return loc
	}
	return loc
}

// BlockExtent is the byte extent of a block including its labels and body even
// when the parser recovered a header without braces (where Range() collapses to
// the type keyword).
func BlockExtent(b *hclsyntax.Block) Region {
	r := b.Range()
	rg := Region{b.TypeRange.Start.Byte, r.End.Byte}
	for _, lr := range b.LabelRanges {
		if lr.End.Byte > rg.End {
			rg.End = lr.End.Byte
		}
	}
	if b.Body != nil && b.Body.Range().End.Byte > rg.End {
		rg.End = b.Body.Range().End.Byte
	}
	return rg
}
