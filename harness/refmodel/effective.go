// Package refmodel contains the reference models the oracles compare the
// library against. They are written from the property statements (and the
// documented schema semantics), operate on the serialisable models and on
// HCL's own AST, and never call into hcl-lang's decoder.
package refmodel

import (
	"encoding/json"
	"sort"

	"github.com/hashicorp/hcl/v2"
	"github.com/hashicorp/hcl/v2/hclsyntax"
	"github.com/zclconf/go-cty/cty"
	ctyjson "github.com/zclconf/go-cty/cty/json"

	m "verif/harness/model"
)

// KeyPair is one dependency key/value pair in canonical form.
type KeyPair struct {
	Kind  string // "label" | "attr"
	Name  string // label index as decimal / attribute name
	Value string // label value / canonical JSON of static value / "addr:" + address
}

// KeySet is a canonical (sorted, duplicate-free) set of key pairs.
type KeySet []KeyPair

func (k KeySet) String() string {
	b, _ := json.Marshal(k)
	return string(b)
}

func canon(pairs []KeyPair) KeySet {
	sort.Slice(pairs, func(i, j int) bool {
		a, b := pairs[i], pairs[j]
		if a.Kind != b.Kind {
			return a.Kind > b.Kind // labels first
		}
		if a.Name != b.Name {
			return a.Name < b.Name
		}
		return a.Value < b.Value
	})
	return KeySet(pairs)
}

func staticJSON(v cty.Value) string {
	b, err := json.Marshal(ctyjson.SimpleJSONValue{Value: v})
	if err != nil {
		return "!" + err.Error()
	}
	return string(b)
}

// DepKeySet gives the canonical key set under which a dependent body is registered.
func DepKeySet(d m.DepM) KeySet {
	var ps []KeyPair
	for _, l := range d.Labels {
		ps = append(ps, KeyPair{"label", itoa(l.Index), l.Value})
	}
	for _, a := range d.Attrs {
		if a.Static != nil {
			ps = append(ps, KeyPair{"attr", a.Name, staticJSON(a.Static.Cty())})
		} else {
			ps = append(ps, KeyPair{"attr", a.Name, "addr:" + m.ParseAddr(a.Addr).String()})
		}
	}
	return canon(ps)
}

func itoa(i int) string {
	b, _ := json.Marshal(i)
	return string(b)
}

// Undetermined is reported when the statement does not determine which body is
// in force (null or unknown key values, unparsable traversals ...).
type Selection struct {
	Index        int  // index into BlockM.Deps of the body in force, -1 if none
	HasKeys      bool // the block instance has at least one dependency key
	Resolved     bool // every level of the lookup succeeded (or there are no keys at all)
	Undetermined bool
	Level1       int // index of the first-level body (== Index unless a second level was used)
	Keys         KeySet
	// Unresolvable: a key attribute of the static body is written with an expression that is
	// neither a reference nor a static value (a call, an interpolation, ...): the dependent body
	// cannot be resolved for this block
	Unresolvable bool
}

// blockKeys computes the key pairs contributed by the block's labels and by the
// key attributes declared in `keyBody` (written literal / reference, else default).
func blockKeys(bl m.BlockM, keyBody *m.BodyM, block *hclsyntax.Block, unresolvable *bool) (KeySet, bool, bool) {
	var ps []KeyPair
	undetermined := false
	for i, l := range bl.Labels {
		if !l.DepKey {
			continue
		}
		if i >= len(block.Labels) {
			// label missing: the labels written so far are still keys
			return canon(ps), false, true
		}
		ps = append(ps, KeyPair{"label", itoa(i), block.Labels[i]})
	}
	if keyBody == nil || block.Body == nil {
		return canon(ps), undetermined, false
	}
	names := make([]string, 0, len(keyBody.Attrs))
	for n := range keyBody.Attrs {
		names = append(names, n)
	}
	sort.Strings(names)
	for _, n := range names {
		a := keyBody.Attrs[n]
		if !a.DepKey {
			continue
		}
		attr, written := block.Body.Attributes[n]
		if written {
			if st, ok := attr.Expr.(*hclsyntax.ScopeTraversalExpr); ok {
				addr, ok := traversalString(st.Traversal)
				if !ok {
					undetermined = true
					continue
				}
				ps = append(ps, KeyPair{"attr", n, "addr:" + addr})
				continue
			}
			v, diags := attr.Expr.Value(nil)
			if diags.HasErrors() || v.IsNull() || !v.IsWhollyKnown() {
				undetermined = true
				if unresolvable != nil && diags.HasErrors() && !v.IsNull() && !v.IsWhollyKnown() {
					*unresolvable = true
				}
				continue
			}
			ps = append(ps, KeyPair{"attr", n, staticJSON(v)})
			continue
		}
		if a.Default != nil {
			ps = append(ps, KeyPair{"attr", n, staticJSON(a.Default.Cty())})
		}
	}
	return canon(ps), undetermined, false
}

func traversalString(tr hcl.Traversal) (string, bool) {
	s := ""
	for _, step := range tr {
		switch t := step.(type) {
		case hcl.TraverseRoot:
			s += t.Name
		case hcl.TraverseAttr:
			s += "." + t.Name
		case hcl.TraverseIndex:
			switch t.Key.Type() {
			case cty.Number:
				f := t.Key.AsBigFloat()
				i, _ := f.Int64()
				s += "[" + itoa(int(i)) + "]"
			case cty.String:
				b, _ := json.Marshal(t.Key.AsString())
				s += "[" + string(b) + "]"
			default:
				return "", false
			}
		default:
			return "", false
		}
	}
	return s, true
}

func findDep(bl m.BlockM, ks KeySet) int {
	want := ks.String()
	for i, d := range bl.Deps {
		if DepKeySet(d).String() == want {
			return i
		}
	}
	return -1
}

// Select decides which dependent body is in force inside `block`.
func Select(bl m.BlockM, block *hclsyntax.Block) Selection {
	unres := false
	ks, undet, missingLabel := blockKeys(bl, bl.Body, block, &unres)
	sel := Selection{Index: -1, Level1: -1, Keys: ks, Undetermined: undet, Unresolvable: unres && !missingLabel}
	if missingLabel {
		// a key label is not written: nothing can be selected, and the
		// statement does not say whether validation knows the schema
		sel.HasKeys = true
		sel.Undetermined = true
		return sel
	}
	if len(ks) == 0 {
		sel.Resolved = !undet
		return sel
	}
	sel.HasKeys = true
	i := findDep(bl, ks)
	if i < 0 {
		return sel
	}
	sel.Index, sel.Level1, sel.Resolved = i, i, true
	// second level: key attributes declared by the first-level body
	d1 := bl.Deps[i].Body
	hasKeyAttr := false
	for _, a := range d1.Attrs {
		if a.DepKey {
			hasKeyAttr = true
		}
	}
	if !hasKeyAttr {
		return sel
	}
	if bl.Body != nil {
		for _, a := range bl.Body.Attrs {
			if a.DepKey {
				// key attributes on both levels: the statement does not say
				// whether the static ones take part in the second-level key
				sel.Undetermined = true
			}
		}
	}
	ks2, undet2, _ := blockKeys(bl, &d1, block, nil)
	if undet2 {
		sel.Undetermined = true
	}
	if ks2.String() == ks.String() {
		return sel // no second-level key written: first level stays in force
	}
	j := findDep(bl, ks2)
	if j < 0 {
		sel.Resolved = false // partially resolved
		return sel
	}
	sel.Index = j
	sel.Keys = ks2
	return sel
}

// Overlay returns static overlaid with dep (dep wins on clashes). The synthetic
// `dynamic` block is not added here; see DynamicTypes.
func Overlay(static *m.BodyM, dep *m.BodyM) m.BodyM {
	out := m.BodyM{}
	if static != nil {
		out = *static
		out.Attrs = copyAttrs(static.Attrs)
		out.Blocks = copyBlocks(static.Blocks)
	}
	if dep == nil {
		return out
	}
	if len(dep.Attrs) > 0 && out.Attrs == nil {
		out.Attrs = map[string]m.AttrM{}
	}
	for n, a := range dep.Attrs {
		out.Attrs[n] = a
	}
	if len(dep.Blocks) > 0 && out.Blocks == nil {
		out.Blocks = map[string]m.BlockM{}
	}
	for n, b := range dep.Blocks {
		out.Blocks[n] = b
	}
	if dep.Ext != nil {
		e := *dep.Ext
		out.Ext = &e
	}
	out.DocsLink = dep.DocsLink
	out.Targets = dep.Targets
	out.TargetableAs = append(append([]m.TargetableM(nil), out.TargetableAs...), dep.TargetableAs...)
	out.Implied = append(append([]m.ImpliedM(nil), out.Implied...), dep.Implied...)
	return out
}

func copyAttrs(a map[string]m.AttrM) map[string]m.AttrM {
	if a == nil {
		return nil
	}
	out := make(map[string]m.AttrM, len(a))
	for k, v := range a {
		out[k] = v
	}
	return out
}

func copyBlocks(a map[string]m.BlockM) map[string]m.BlockM {
	if a == nil {
		return nil
	}
	out := make(map[string]m.BlockM, len(a))
	for k, v := range a {
		out[k] = v
	}
	return out
}
