package refmodel

import (
	"fmt"
	"sort"
	"strings"

	"github.com/hashicorp/hcl/v2"
	"github.com/hashicorp/hcl/v2/hclsyntax"
	"github.com/zclconf/go-cty/cty"

	m "verif/harness/model"
)

// Tok is a semantic token in comparable form.
type Tok struct {
	Type  string
	Start int
	End   int
	Mods  string // modifiers joined with ","
}

func (t Tok) String() string { return fmt.Sprintf("%s@%d-%d[%s]", t.Type, t.Start, t.End, t.Mods) }

// ValueRegion is the expression of a schema-known attribute together with the
// constraint that governs it.
type ValueRegion struct {
	Start, End int
	Cons       m.ConsM
	Expr       hclsyntax.Expression
	SelfRefs   bool
}

// TokenModel is what the statement determines about the tokens of a file.
type TokenModel struct {
	Structural []Tok         // attribute names, block types, labels: must appear exactly
	Values     []ValueRegion // tokens other than structural ones may only appear inside these
	Forbidden  []Region      // unknown attributes / blocks: no token at all inside
	Ignore     []Region      // not decided by the statement
	Literals   []Tok         // value tokens that are determined (plain literals under literal-friendly constraints)
}

func joinMods(parts ...[]string) string {
	var all []string
	for _, p := range parts {
		all = append(all, p...)
	}
	return strings.Join(all, ",")
}

// ExpectedTokens builds the token model of a file.
func ExpectedTokens(root *m.BodyM, body *hclsyntax.Body) TokenModel {
	var tm TokenModel
	mods := map[*BodyCtx][]string{}
	WalkBodies(root, body, func(bc *BodyCtx) {
		// modifiers inherited from all enclosing (known) blocks
		var inherited []string
		if bc.Parent != nil {
			inherited = append(inherited, mods[bc.Parent]...)
		}
		if bc.BlockM != nil {
			inherited = append(inherited, bc.BlockM.Mods...)
		}
		mods[bc] = inherited
		if bc.Undetermined {
			if bc.Block != nil {
				tm.Ignore = append(tm.Ignore, BlockExtent(bc.Block))
			}
			return
		}
		if bc.Schema == nil {
			if bc.Block != nil && bc.Block.Body != nil && bc.Block.OpenBraceRange.Start.Byte >= bc.Block.TypeRange.End.Byte {
				// body of an unknown block, or of a block without any body schema: no tokens inside
				// (a header without braces is recovered with a body range on top of the type keyword)
				r := bc.Block.Body.Range()
				tm.Forbidden = append(tm.Forbidden, Region{r.Start.Byte, r.End.Byte})
			}
			return
		}
		s := bc.Schema
		for _, name := range sortedAttrNames(bc.Body.Attributes) {
			a := bc.Body.Attributes[name]
			var as *m.AttrM
			isExtName := s.Ext != nil && (s.Ext.Count && name == "count" || s.Ext.ForEach && name == "for_each")
			if _, declared := s.Attrs[name]; declared && isExtName {
				// declared attribute vs extension attribute of the same name: which one
				// governs is not decided by the statement
				tm.Ignore = append(tm.Ignore, Region{a.SrcRange.Start.Byte, a.SrcRange.End.Byte})
				continue
			}
			if sa, ok := s.Attrs[name]; ok {
				as = &sa
			} else if s.Ext != nil && (s.Ext.Count && name == "count" || s.Ext.ForEach && name == "for_each") {
				if name == "count" {
					as = &m.AttrM{Cons: m.ConsM{K: "any", Ty: m.TyOf(cty.Number)}}
				} else {
					as = &m.AttrM{Cons: m.ConsM{K: "oneof-foreach"}}
				}
			} else if s.AnyAttr != nil {
				as = s.AnyAttr
			}
			if as == nil {
				tm.Forbidden = append(tm.Forbidden, Region{a.SrcRange.Start.Byte, a.SrcRange.End.Byte})
				continue
			}
			tm.Structural = append(tm.Structural, Tok{"hcl-attrName", a.NameRange.Start.Byte, a.NameRange.End.Byte, joinMods(inherited, as.Mods)})
			er := a.Expr.Range()
			tm.Values = append(tm.Values, ValueRegion{er.Start.Byte, er.End.Byte, as.Cons, a.Expr, bc.SelfRefs})
			if lt := literalTokens(as.Cons, a.Expr); lt != nil {
				tm.Literals = append(tm.Literals, lt...)
			}
		}
		for _, b := range bc.Body.Blocks {
			if b.Type == "dynamic" && bc.DynamicOn {
				tm.Ignore = append(tm.Ignore, BlockExtent(b))
				continue
			}
			bs, ok := s.Blocks[b.Type]
			if !ok {
				tm.Forbidden = append(tm.Forbidden, BlockExtent(b))
				continue
			}
			tm.Structural = append(tm.Structural, Tok{"hcl-blockType", b.TypeRange.Start.Byte, b.TypeRange.End.Byte, joinMods(inherited, bs.Mods)})
			for i, lr := range b.LabelRanges {
				if i >= len(bs.Labels) {
					tm.Forbidden = append(tm.Forbidden, Region{lr.Start.Byte, lr.End.Byte})
					continue
				}
				tm.Structural = append(tm.Structural, Tok{"hcl-blockLabel", lr.Start.Byte, lr.End.Byte, joinMods(inherited, bs.Mods, bs.Labels[i].Mods)})
			}
		}
	})
	sort.Slice(tm.Structural, func(i, j int) bool { return tm.Structural[i].Start < tm.Structural[j].Start })
	return tm
}

// literalTokens returns the determined tokens for a plain literal written under
// a constraint that admits exactly that literal type; nil when not determined.
func literalTokens(c m.ConsM, expr hclsyntax.Expression) []Tok {
	var want cty.Type
	switch c.K {
	case "littype", "any":
		want = c.Ty.Cty()
	default:
		return nil
	}
	if !want.IsPrimitiveType() {
		return nil
	}
	r := expr.Range()
	switch e := expr.(type) {
	case *hclsyntax.LiteralValueExpr:
		if e.Val.IsNull() || !e.Val.IsKnown() {
			return nil
		}
		switch {
		case e.Val.Type() == cty.Bool && want == cty.Bool:
			return []Tok{{"hcl-bool", r.Start.Byte, r.End.Byte, ""}}
		case e.Val.Type() == cty.Number && want == cty.Number:
			return []Tok{{"hcl-number", r.Start.Byte, r.End.Byte, ""}}
		}
	case *hclsyntax.TemplateExpr:
		if want == cty.String && e.IsStringLiteral() && r.Start.Line == r.End.Line {
			return []Tok{{"hcl-string", r.Start.Byte, r.End.Byte, ""}}
		}
	}
	return nil
}

var _ = hcl.Pos{}
