package refmodel

import (
	"sort"
	"strings"

	m "verif/harness/model"
)

// BodyCandidates is what the statement determines about name completion inside a body.
type BodyCandidates struct {
	Names    []string        // exactly these (sorted, duplicate free) ...
	DontCare map[string]bool // ... plus, optionally, any of these
}

// ExpectedBodyCandidates lists the attributes and block types of the effective
// schema that start with prefix and can still be declared in bc.Body.
func ExpectedBodyCandidates(bc *BodyCtx, prefix string) BodyCandidates {
	out := BodyCandidates{DontCare: map[string]bool{}}
	s := bc.Schema
	if s == nil {
		return out
	}
	declared := map[string]bool{}
	for n := range bc.Body.Attributes {
		declared[n] = true
	}
	count := map[string]uint64{}
	for _, b := range bc.Body.Blocks {
		count[b.Type]++
	}
	set := map[string]bool{}
	add := func(n string) {
		if strings.HasPrefix(n, prefix) {
			set[n] = true
		}
	}
	if s.Ext != nil {
		if s.Ext.Count && !declared["count"] {
			add("count")
		}
		if s.Ext.ForEach && !declared["for_each"] {
			add("for_each")
		}
	}
	for n, a := range s.Attrs {
		if declared[n] {
			continue
		}
		if a.Computed() && !a.Optional() {
			continue // read-only
		}
		add(n)
	}
	if len(s.Attrs) == 0 && s.AnyAttr != nil {
		// a placeholder for "any name" may be offered
		out.DontCare["name"] = true
	}
	for n, b := range s.Blocks {
		if _, clash := s.Attrs[n]; clash {
			continue // attribute preferred on an attribute/block name clash
		}
		if b.Max != 0 && count[n] >= b.Max {
			continue
		}
		add(n)
	}
	if bc.DynamicOn {
		// whether the synthetic dynamic block is available here is not decided
		out.DontCare["dynamic"] = true
		delete(set, "dynamic")
	}
	for n := range set {
		out.Names = append(out.Names, n)
	}
	sort.Strings(out.Names)
	return out
}

// ExpectedLabelCandidates lists the distinct dependent-body label values at
// the given label index that start with prefix.
func ExpectedLabelCandidates(bl m.BlockM, idx int, prefix string) []string {
	set := map[string]bool{}
	for _, d := range bl.Deps {
		for _, l := range d.Labels {
			if l.Index == idx && strings.HasPrefix(l.Value, prefix) {
				set[l.Value] = true
			}
		}
	}
	var out []string
	for v := range set {
		out = append(out, v)
	}
	sort.Strings(out)
	return out
}
