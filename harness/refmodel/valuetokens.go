package refmodel

import (
	"github.com/hashicorp/hcl/v2"
	"github.com/hashicorp/hcl/v2/hclsyntax"
	"github.com/zclconf/go-cty/cty"
	"github.com/zclconf/go-cty/cty/convert"

	m "verif/harness/model"
)

// ValueTokens is what the statement of C13 determines about the tokens inside
// one value: "inside values the literals, keywords, type names, object/map keys,
// known function names and the steps of references that resolve to a collected
// target".
//
// The model is constraint-directed and deliberately partial: it only speaks about
// values whose shape fits their constraint (a literal of the admitted type, a
// constructor under a collection constraint, a call of a known function, a plain
// reference ...). Anything else makes the whole value undetermined (ok=false).
type ValueTokens struct {
	Required []Tok    // must be present exactly like this
	Optional []Region // reference steps may or may not be marked here (resolution is C11's business)
	Ignore   []Region // parts the statement does not decide (unknown object keys, ...)
	NoKey    []Region // keys that cannot name an attribute of the object (numbers, interpolations): no object-key token here
}

func (v *ValueTokens) add(o ValueTokens) {
	v.Required = append(v.Required, o.Required...)
	v.Optional = append(v.Optional, o.Optional...)
	v.Ignore = append(v.Ignore, o.Ignore...)
	v.NoKey = append(v.NoKey, o.NoKey...)
}

func rg(r hcl.Range) Region { return Region{r.Start.Byte, r.End.Byte} }

func tok(t string, r hcl.Range) Tok { return Tok{t, r.Start.Byte, r.End.Byte, ""} }

// ModelValueTokens computes the determined tokens of expr under cons.
func ModelValueTokens(cons m.ConsM, expr hclsyntax.Expression, funcs map[string]m.FuncM) (ValueTokens, bool) {
	vm := valueModel{funcs: funcs}
	return vm.cons(cons, expr, 0)
}

type valueModel struct {
	funcs map[string]m.FuncM
	// skip: the schema asks to leave literal collection constructors alone under this
	// any-expression; how far down that reaches is not decided, so any constructor below is not
	skip bool
}

func singleLine(r hcl.Range) bool { return r.Start.Line == r.End.Line && r.Start.Byte < r.End.Byte }

// rawKey returns the key of an object item written as a naked identifier or a plain quoted string.
func rawKey(item hclsyntax.ObjectConsItem) (string, bool) {
	ke, ok := item.KeyExpr.(*hclsyntax.ObjectConsKeyExpr)
	if !ok {
		return "", false
	}
	switch w := ke.Wrapped.(type) {
	case *hclsyntax.ScopeTraversalExpr:
		if len(w.Traversal) == 1 && !ke.ForceNonLiteral {
			return w.Traversal.RootName(), true
		}
	case *hclsyntax.TemplateExpr:
		if w.IsStringLiteral() && singleLine(w.Range()) {
			if lv, ok := w.Parts[0].(*hclsyntax.LiteralValueExpr); ok && lv.Val.Type() == cty.String && !lv.Val.IsNull() {
				return lv.Val.AsString(), true
			}
		}
	}
	return "", false
}

// RawObjectKey exposes rawKey: the name of an item written with a naked or plainly quoted key.
func RawObjectKey(item hclsyntax.ObjectConsItem) (string, bool) { return rawKey(item) }

func (vm valueModel) cons(c m.ConsM, expr hclsyntax.Expression, depth int) (ValueTokens, bool) {
	var out ValueTokens
	if depth > 8 || expr == nil {
		return out, false
	}
	switch c.K {
	case "any":
		if c.Skip {
			// the schema asks to leave literal collection constructors alone here
			vm.skip = true
		}
		return vm.typed(c.Ty.Cty(), expr, true, depth)
	case "littype":
		return vm.typed(c.Ty.Cty(), expr, false, depth)
	case "litval":
		v := c.Val.Cty()
		if !v.Type().IsPrimitiveType() || v.IsNull() {
			return out, false
		}
		got, ok := literalOf(expr)
		if !ok || !got.Type().Equals(v.Type()) || !got.RawEquals(v) {
			return out, false
		}
		return vm.typed(v.Type(), expr, false, depth)
	case "keyword":
		st, ok := expr.(*hclsyntax.ScopeTraversalExpr)
		if ok && len(st.Traversal) > 1 && st.Traversal.RootName() == c.Kw {
			// the keyword followed by further steps (kw.name, kw[0]) is a reference, not the
			// keyword: nothing in it is a schema-known element under a keyword constraint
			return out, true
		}
		if !ok || len(st.Traversal) != 1 || st.Traversal.RootName() != c.Kw {
			return out, false
		}
		out.Required = append(out.Required, tok("hcl-keyword", st.Range()))
		return out, true
	case "typedecl":
		return vm.typeDecl(expr, depth)
	case "ref":
		if st, ok := expr.(*hclsyntax.ScopeTraversalExpr); ok {
			out.Optional = append(out.Optional, rg(st.Range()))
			return out, true
		}
		return out, false
	case "list", "set":
		tc, ok := expr.(*hclsyntax.TupleConsExpr)
		if !ok || c.Elem == nil {
			return out, false
		}
		for _, e := range tc.Exprs {
			sub, ok := vm.cons(*c.Elem, e, depth+1)
			if !ok {
				return out, false
			}
			out.add(sub)
		}
		return out, true
	case "tuple":
		tc, ok := expr.(*hclsyntax.TupleConsExpr)
		if !ok || len(tc.Exprs) > len(c.Elems) {
			return out, false
		}
		for i, e := range tc.Exprs {
			sub, ok := vm.cons(c.Elems[i], e, depth+1)
			if !ok {
				return out, false
			}
			out.add(sub)
		}
		return out, true
	case "map":
		oc, ok := expr.(*hclsyntax.ObjectConsExpr)
		if !ok || c.Elem == nil {
			return out, false
		}
		for _, it := range oc.Items {
			if _, ok := rawKey(it); !ok {
				return out, false
			}
			out.Required = append(out.Required, tok("hcl-mapKey", it.KeyExpr.Range()))
			sub, ok := vm.cons(*c.Elem, it.ValueExpr, depth+1)
			if !ok {
				return out, false
			}
			out.add(sub)
		}
		return out, true
	case "object":
		oc, ok := expr.(*hclsyntax.ObjectConsExpr)
		if !ok {
			return out, false
		}
		seen := map[string]bool{}
		for _, it := range oc.Items {
			k, ok := rawKey(it)
			if !ok {
				// not a literal key: it names no attribute, so it gets no object-key token; what
				// else is marked inside the key and its value is not decided
				out.NoKey = append(out.NoKey, rg(it.KeyExpr.Range()))
				out.Ignore = append(out.Ignore, rg(hcl.RangeBetween(it.KeyExpr.Range(), it.ValueExpr.Range())))
				continue
			}
			if seen[k] {
				return out, false
			}
			seen[k] = true
			as, known := c.Attrs[k]
			if !known {
				// an object key the schema does not know: not decided
				out.Ignore = append(out.Ignore, rg(hcl.RangeBetween(it.KeyExpr.Range(), it.ValueExpr.Range())))
				continue
			}
			out.Required = append(out.Required, tok("hcl-objectKey", it.KeyExpr.Range()))
			sub, ok := vm.cons(as.Cons, it.ValueExpr, depth+1)
			if !ok {
				return out, false
			}
			out.add(sub)
		}
		return out, true
	case "oneof":
		// decided only when every member that has an opinion has the same one
		var first *ValueTokens
		for _, e := range c.Elems {
			sub, ok := vm.cons(e, expr, depth+1)
			if !ok {
				return out, false
			}
			if first == nil {
				s := sub
				first = &s
				continue
			}
			if !sameValueTokens(*first, sub) {
				return out, false
			}
		}
		if first == nil {
			return out, false
		}
		return *first, true
	}
	return out, false
}

func sameValueTokens(a, b ValueTokens) bool {
	if len(a.Required) != len(b.Required) || len(a.Optional) != len(b.Optional) || len(a.Ignore) != len(b.Ignore) || len(a.NoKey) != len(b.NoKey) {
		return false
	}
	for i := range a.Required {
		if a.Required[i] != b.Required[i] {
			return false
		}
	}
	for i := range a.Optional {
		if a.Optional[i] != b.Optional[i] {
			return false
		}
	}
	for i := range a.Ignore {
		if a.Ignore[i] != b.Ignore[i] {
			return false
		}
	}
	return true
}

// literalOf returns the value of a plain literal (number, bool, single-line string without interpolation).
func literalOf(expr hclsyntax.Expression) (cty.Value, bool) {
	switch e := expr.(type) {
	case *hclsyntax.LiteralValueExpr:
		if e.Val.IsNull() || !e.Val.IsKnown() {
			return cty.NilVal, false
		}
		if e.Val.Type() == cty.Number || e.Val.Type() == cty.Bool {
			return e.Val, true
		}
	case *hclsyntax.TemplateExpr:
		if e.IsStringLiteral() && singleLine(e.Range()) {
			if lv, ok := e.Parts[0].(*hclsyntax.LiteralValueExpr); ok && !lv.Val.IsNull() && lv.Val.Type() == cty.String {
				return lv.Val, true
			}
		}
	}
	return cty.NilVal, false
}

func literalTokType(t cty.Type) string {
	switch t {
	case cty.Number:
		return "hcl-number"
	case cty.Bool:
		return "hcl-bool"
	}
	return "hcl-string"
}

// typed models a value under a type-directed constraint: a literal type
// (anyExpr=false) or an any-expression (anyExpr=true, which additionally admits
// references and calls of known functions).
func (vm valueModel) typed(t cty.Type, expr hclsyntax.Expression, anyExpr bool, depth int) (ValueTokens, bool) {
	var out ValueTokens
	if depth > 8 {
		return out, false
	}
	elem := func(et cty.Type, e hclsyntax.Expression) bool {
		sub, ok := vm.typed(et, e, anyExpr, depth+1)
		if ok {
			out.add(sub)
			return true
		}
		if anyExpr && e != nil && e.Range().Start.Byte < e.Range().End.Byte {
			// under an any-expression every element / operand / argument / branch is interpreted on
			// its own: one that is not decided leaves its own extent undecided, not its siblings
			out.Ignore = append(out.Ignore, rg(e.Range()))
			return true
		}
		return false
	}
	fits := func(result cty.Type) bool {
		if t == cty.DynamicPseudoType || result == cty.DynamicPseudoType {
			return true
		}
		_, err := convert.Convert(cty.UnknownVal(result), t)
		return err == nil
	}
	if vm.skip {
		switch expr.(type) {
		case *hclsyntax.TupleConsExpr, *hclsyntax.ObjectConsExpr:
			return out, false
		}
	}
	switch e := expr.(type) {
	case *hclsyntax.ParenthesesExpr:
		if !anyExpr {
			return out, false
		}
		return vm.typed(t, e.Expression, true, depth+1)
	case *hclsyntax.BinaryOpExpr:
		// an operation whose result fits the expected type: the operands are values of the operator's operand types
		if !anyExpr || e.Op == nil || !fits(e.Op.Type) {
			return out, false
		}
		ps := e.Op.Impl.Params()
		if len(ps) != 2 || !elem(ps[0].Type, e.LHS) || !elem(ps[1].Type, e.RHS) {
			return out, false
		}
		return out, true
	case *hclsyntax.UnaryOpExpr:
		if !anyExpr || e.Op == nil || !fits(e.Op.Type) {
			return out, false
		}
		ps := e.Op.Impl.Params()
		if len(ps) != 1 || !elem(ps[0].Type, e.Val) {
			return out, false
		}
		return out, true
	case *hclsyntax.ConditionalExpr:
		if !anyExpr {
			return out, false
		}
		if !elem(cty.Bool, e.Condition) || !elem(t, e.TrueResult) || !elem(t, e.FalseResult) {
			return out, false
		}
		return out, true
	case *hclsyntax.ForExpr:
		// a for expression where a collection is expected: what is marked inside the source
		// collection, the key and the value expression is not decided here (the element types are
		// only approximated upstream); the condition is a boolean value
		if !anyExpr || !(t.IsListType() || t.IsSetType() || t.IsMapType() || t == cty.DynamicPseudoType) {
			return out, false
		}
		if (e.KeyExpr != nil) != (t.IsMapType() || t == cty.DynamicPseudoType) && t != cty.DynamicPseudoType {
			return out, false // {for ...} where a list is expected or the other way round
		}
		for _, x := range []hclsyntax.Expression{e.CollExpr, e.KeyExpr, e.ValExpr} {
			if x != nil && x.Range().Start.Byte < x.Range().End.Byte {
				out.Ignore = append(out.Ignore, rg(x.Range()))
			}
		}
		if e.CondExpr != nil && !elem(cty.Bool, e.CondExpr) {
			return out, false
		}
		return out, true
	case *hclsyntax.IndexExpr:
		// coll[key] with a key that is no plain literal: what is marked inside the collection is
		// not decided; the key is a value used as a string / number key
		if !anyExpr {
			return out, false
		}
		if _, lit := literalOf(e.Key); lit {
			return out, false
		}
		if _, lit := e.Key.(*hclsyntax.LiteralValueExpr); lit {
			return out, false
		}
		out.Ignore = append(out.Ignore, rg(e.Collection.Range()))
		if !elem(cty.String, e.Key) {
			return out, false
		}
		return out, true
	case *hclsyntax.TupleConsExpr:
		switch {
		case t.IsListType() || t.IsSetType():
			for _, x := range e.Exprs {
				if !elem(t.ElementType(), x) {
					return out, false
				}
			}
			return out, true
		case t.IsTupleType():
			ets := t.TupleElementTypes()
			if len(e.Exprs) > len(ets) {
				return out, false
			}
			for i, x := range e.Exprs {
				if !elem(ets[i], x) {
					return out, false
				}
			}
			return out, true
		}
		return out, false
	case *hclsyntax.ObjectConsExpr:
		switch {
		case t.IsMapType():
			for _, it := range e.Items {
				if _, ok := rawKey(it); !ok {
					return out, false
				}
				out.Required = append(out.Required, tok("hcl-mapKey", it.KeyExpr.Range()))
				if !elem(t.ElementType(), it.ValueExpr) {
					return out, false
				}
			}
			return out, true
		case t.IsObjectType():
			seen := map[string]bool{}
			for _, it := range e.Items {
				k, ok := rawKey(it)
				if !ok {
					out.NoKey = append(out.NoKey, rg(it.KeyExpr.Range()))
					out.Ignore = append(out.Ignore, rg(hcl.RangeBetween(it.KeyExpr.Range(), it.ValueExpr.Range())))
					continue
				}
				if seen[k] {
					return out, false
				}
				seen[k] = true
				if !t.HasAttribute(k) {
					out.Ignore = append(out.Ignore, rg(hcl.RangeBetween(it.KeyExpr.Range(), it.ValueExpr.Range())))
					continue
				}
				out.Required = append(out.Required, tok("hcl-objectKey", it.KeyExpr.Range()))
				if !elem(t.AttributeType(k), it.ValueExpr) {
					return out, false
				}
			}
			return out, true
		}
		return out, false
	case *hclsyntax.ScopeTraversalExpr:
		if !anyExpr {
			return out, false
		}
		out.Optional = append(out.Optional, rg(e.Range()))
		return out, true
	case *hclsyntax.FunctionCallExpr:
		if !anyExpr {
			return out, false
		}
		fn, known := vm.funcs[e.Name]
		if !known || e.ExpandFinal {
			return out, false
		}
		ret := fn.Ret.Cty()
		if t != cty.DynamicPseudoType && ret != cty.DynamicPseudoType {
			if _, err := convert.Convert(cty.UnknownVal(ret), t); err != nil {
				return out, false // a known function whose result does not fit: not decided
			}
		}
		if len(e.Args) > len(fn.Params) && fn.VarParam == nil {
			return out, false
		}
		out.Required = append(out.Required, tok("hcl-functionName", e.NameRange))
		for i, a := range e.Args {
			pt := cty.DynamicPseudoType
			if i < len(fn.Params) {
				pt = fn.Params[i].Ty.Cty()
			} else if fn.VarParam != nil {
				pt = fn.VarParam.Ty.Cty()
			}
			sub, ok := vm.typed(pt, a, true, depth+1)
			if !ok {
				out.Ignore = append(out.Ignore, rg(a.Range()))
				continue
			}
			out.add(sub)
		}
		return out, true
	}
	// plain literals
	v, ok := literalOf(expr)
	if !ok {
		return out, false
	}
	if t == cty.DynamicPseudoType {
		if anyExpr {
			out.Required = append(out.Required, tok(literalTokType(v.Type()), expr.Range()))
			return out, true
		}
		return out, false
	}
	if !t.IsPrimitiveType() || !v.Type().Equals(t) {
		return out, false // a literal of another type (even a convertible one): not decided
	}
	out.Required = append(out.Required, tok(literalTokType(t), expr.Range()))
	return out, true
}

var primitiveTypeNames = map[string]bool{"string": true, "number": true, "bool": true, "any": true}

// typeDecl models the tokens of a well-formed type expression.
func (vm valueModel) typeDecl(expr hclsyntax.Expression, depth int) (ValueTokens, bool) {
	var out ValueTokens
	if depth > 8 {
		return out, false
	}
	switch e := expr.(type) {
	case *hclsyntax.ScopeTraversalExpr:
		if len(e.Traversal) == 1 && primitiveTypeNames[e.Traversal.RootName()] {
			out.Required = append(out.Required, tok("hcl-typePrimitive", e.Range()))
			return out, true
		}
		return out, false
	case *hclsyntax.FunctionCallExpr:
		switch e.Name {
		case "list", "set", "map":
			if len(e.Args) != 1 {
				return out, false
			}
			out.Required = append(out.Required, tok("hcl-typeComplex", e.NameRange))
			sub, ok := vm.typeDecl(e.Args[0], depth+1)
			if !ok {
				return out, false
			}
			out.add(sub)
			return out, true
		case "tuple":
			if len(e.Args) != 1 {
				return out, false
			}
			tc, ok := e.Args[0].(*hclsyntax.TupleConsExpr)
			if !ok {
				return out, false
			}
			out.Required = append(out.Required, tok("hcl-typeComplex", e.NameRange))
			for _, x := range tc.Exprs {
				sub, ok := vm.typeDecl(x, depth+1)
				if !ok {
					return out, false
				}
				out.add(sub)
			}
			return out, true
		case "object":
			if len(e.Args) != 1 {
				return out, false
			}
			oc, ok := e.Args[0].(*hclsyntax.ObjectConsExpr)
			if !ok {
				return out, false
			}
			out.Required = append(out.Required, tok("hcl-typeComplex", e.NameRange))
			for _, it := range oc.Items {
				// a naked or a plainly quoted name: the token covers the key as written (with its
				// quotes), like every other key token; an empty name ("") is not decided
				name, ok := rawKey(it)
				if !ok || name == "" {
					return out, false
				}
				out.Required = append(out.Required, tok("hcl-attrName", it.KeyExpr.Range()))
				sub, ok := vm.typeDecl(it.ValueExpr, depth+1)
				if !ok {
					return out, false
				}
				out.add(sub)
			}
			return out, true
		}
	}
	return out, false
}
