package refmodel

import (
	"fmt"
	"strings"

	"github.com/hashicorp/hcl-lang/schema"
	"github.com/hashicorp/hcl/v2"
	"github.com/hashicorp/hcl/v2/ext/typeexpr"
	"github.com/hashicorp/hcl/v2/hclsyntax"
	"github.com/zclconf/go-cty/cty"

	m "verif/harness/model"
)

// ExpTarget is a reference target the statement requires.
type ExpTarget struct {
	Kind     string // block:asReference | block:asTypeOf | block:bodyAsData | block:depBodyAsData | block:unknownNested | attr:asReference | attr:asExprType | local
	Addr     string
	Local    string // local address (count.index, each.key ...), "" if none
	Scope    string
	Type     string // cty GoString; "" = not determined by the model; "nil" = type-less
	Start    int
	End      int
	DefStart int
	DefEnd   int
	NoDef    bool // the target carries no definition range (a reference that declares the address it names)
}

func (t ExpTarget) String() string {
	return fmt.Sprintf("%s %s%s scope=%q type=%s range=%d-%d def=%d-%d", t.Kind, t.Addr, t.Local, t.Scope, t.Type, t.Start, t.End, t.DefStart, t.DefEnd)
}

// Source describes one place that may legitimately produce targets.
type Source struct {
	Kind   string // block | attr | ext | targetable | selfaddr
	Region Region
	Addr   string // expected address of targets from this source ("*" = any)
}

// TargetModel is what the statement determines about the collected targets of a file.
type TargetModel struct {
	Expected  []ExpTarget
	Sources   []Source
	Forbidden []Region // unknown attributes / blocks: nothing may be collected for them
	Ignore    []Region
	Classes   map[string]bool
}

// ResolveBlockAddr builds the address of a block from its declared steps.
func ResolveBlockAddr(bm m.BlockM, b *hclsyntax.Block) (string, bool) {
	if bm.Addr == nil {
		return "", false
	}
	addr := ""
	first := true
	for _, st := range bm.Addr.Steps {
		var name string
		switch st.K {
		case "static":
			name = st.Name
		case "label":
			if int(st.Index) >= len(b.Labels) {
				return "", false
			}
			name = b.Labels[st.Index]
		case "attrvalue":
			a, ok := b.Body.Attributes[st.Name]
			if !ok {
				if st.Optional {
					continue
				}
				return "", false
			}
			v, _ := a.Expr.Value(nil)
			if v.IsNull() || !v.IsWhollyKnown() || v.Type() != cty.String {
				return "", false
			}
			name = v.AsString()
		default:
			return "", false
		}
		if first {
			addr = name
			first = false
		} else {
			addr += "." + name
		}
	}
	return addr, true
}

// ResolveAttrAddr builds the address of an attribute from its declared steps.
func ResolveAttrAddr(am m.AttrM, name string) (string, bool) {
	if am.Addr == nil || len(am.Addr.Steps) == 0 {
		return "", false
	}
	addr := ""
	for i, st := range am.Addr.Steps {
		n := st.Name
		switch st.K {
		case "static":
		case "attrname":
			n = name
		default:
			return "", false
		}
		if i == 0 {
			addr = n
		} else {
			addr += "." + n
		}
	}
	return addr, true
}

// consType is the declared type of a constraint, if it has one (schema package accessor).
func consType(c m.ConsM) (cty.Type, bool) {
	ta, ok := c.Build().(schema.TypeAwareConstraint)
	if !ok {
		return cty.NilType, false
	}
	return ta.ConstraintType()
}

// BodyType is the data type of a block body: object of the attribute types and
// (recursively) nested block types, wrapped per block type.
func BodyType(blockType string, body *m.BodyM) cty.Type {
	attrs := map[string]cty.Type{}
	if body != nil {
		for n, a := range body.Attrs {
			if t, ok := consType(a.Cons); ok {
				attrs[n] = t
			}
		}
		for n, b := range body.Blocks {
			attrs[n] = BodyType(b.Type, b.Body)
		}
	}
	obj := cty.Object(attrs)
	switch blockType {
	case "list":
		return cty.List(obj)
	case "set":
		return cty.Set(obj)
	case "map":
		return cty.Map(obj)
	}
	return obj
}

func hasSelfAddressingRef(c m.ConsM) bool {
	if c.K == "ref" && c.AddrScope != "" {
		return true
	}
	if c.Elem != nil && hasSelfAddressingRef(*c.Elem) {
		return true
	}
	for _, e := range c.Elems {
		if hasSelfAddressingRef(e) {
			return true
		}
	}
	for _, a := range c.Attrs {
		if hasSelfAddressingRef(a.Cons) {
			return true
		}
	}
	return false
}

// ExpectedTargets builds the target model of one file.
func ExpectedTargets(root *m.BodyM, body *hclsyntax.Body) TargetModel {
	tm := TargetModel{Classes: map[string]bool{}}
	WalkBodies(root, body, func(bc *BodyCtx) {
		if bc.Undetermined {
			if bc.Block != nil {
				tm.Ignore = append(tm.Ignore, BlockExtent(bc.Block))
			}
			return
		}
		if bc.Schema == nil {
			if bc.Block != nil && bc.Block.Body != nil && bc.Block.OpenBraceRange.Start.Byte >= bc.Block.TypeRange.End.Byte {
				tm.Forbidden = append(tm.Forbidden, regionOf(bc.Block.Body.Range()))
			}
			return
		}
		s := bc.Schema
		bodyRange := bc.Body.Range()
		// targetable-as on this body: targets carry the enclosing block's range
		if bc.Block != nil && len(s.TargetableAs) > 0 {
			tm.Sources = append(tm.Sources, Source{"targetable", regionOf(bc.Block.Range()), "*"})
			tm.Classes["targetable-as"] = true
			// every targetable the effective schema declares (static and dependent body) yields its target
			br, dr := bc.Block.Range(), bc.Block.DefRange()
			for _, tt := range s.TargetableAs {
				if tt.Addr == "" {
					continue
				}
				tm.Expected = append(tm.Expected, ExpTarget{Kind: "targetable", Addr: m.ParseAddr(tt.Addr).String(), Scope: tt.Scope, Type: tt.Ty.Cty().GoString(),
					Start: br.Start.Byte, End: br.End.Byte, DefStart: dr.Start.Byte, DefEnd: dr.End.Byte})
			}
			if bc.Sel.Index >= 0 && bc.BlockM != nil && bc.BlockM.Body != nil && len(bc.BlockM.Body.TargetableAs) > 0 && len(bc.BlockM.Deps[bc.Sel.Index].Body.TargetableAs) > 0 {
				tm.Classes["targetable-as(static+dependent)"] = true
			}
		}
		for _, name := range sortedAttrNames(bc.Body.Attributes) {
			a := bc.Body.Attributes[name]
			isExt := s.Ext != nil && (s.Ext.Count && name == "count" || s.Ext.ForEach && name == "for_each")
			sa, declared := s.Attrs[name]
			if isExt {
				// block-local targets, visible inside this body only
				add := func(local string, ty cty.Type) {
					tm.Expected = append(tm.Expected, ExpTarget{Kind: "local", Local: local, Type: ty.GoString(),
						Start: a.SrcRange.Start.Byte, End: a.SrcRange.End.Byte, DefStart: a.NameRange.Start.Byte, DefEnd: a.NameRange.End.Byte})
				}
				if name == "count" {
					add("count.index", cty.Number)
				} else {
					add("each.key", cty.String)
					add("each.value", cty.DynamicPseudoType)
				}
				tm.Sources = append(tm.Sources, Source{"ext", regionOf(a.SrcRange), "*"})
				tm.Classes["block-local(count/for_each)"] = true
				_ = bodyRange
				continue
			}
			var as *m.AttrM
			switch {
			case declared:
				as = &sa
			case s.AnyAttr != nil:
				as = s.AnyAttr
			}
			if as == nil {
				tm.Forbidden = append(tm.Forbidden, regionOf(a.SrcRange))
				continue
			}
			if hasSelfAddressingRef(as.Cons) {
				tm.Sources = append(tm.Sources, Source{"selfaddr", regionOf(a.Expr.Range()), "*"})
				// a plain reference written directly under a reference constraint that declares
				// addresses: the address it names, in the constraint's scope, at exactly that text
				if st, ok := a.Expr.(*hclsyntax.ScopeTraversalExpr); ok && as.Cons.K == "ref" && as.Cons.AddrScope != "" {
					if addr, ok := traversalString(st.Traversal); ok && !strings.ContainsAny(addr, "[\"") {
						tm.Expected = append(tm.Expected, ExpTarget{Kind: "ref:declares-address", Addr: addr, Scope: as.Cons.AddrScope, Type: "nil",
							Start: st.SrcRange.Start.Byte, End: st.SrcRange.End.Byte, NoDef: true})
						tm.Classes["reference-declaring-address"] = true
					}
				}
			}
			addr, ok := ResolveAttrAddr(*as, name)
			if !ok {
				continue
			}
			tm.Sources = append(tm.Sources, Source{"attr", regionOf(a.SrcRange), addr})
			if as.Addr.AsReference {
				tm.Expected = append(tm.Expected, ExpTarget{Kind: "attr:asReference", Addr: addr, Scope: as.Addr.Scope, Type: "nil",
					Start: a.SrcRange.Start.Byte, End: a.SrcRange.End.Byte, DefStart: a.NameRange.Start.Byte, DefEnd: a.NameRange.End.Byte})
				tm.Classes["attribute-as-reference"] = true
			}
			if as.Addr.AsExprType {
				tm.Classes["attribute-as-expr-type"] = true
				// the type comes from the expression; only plain literals under
				// primitive literal / any constraints are determined here
				if lt := literalTokens(as.Cons, a.Expr); lt != nil {
					ty, _ := consType(as.Cons)
					tm.Expected = append(tm.Expected, ExpTarget{Kind: "attr:asExprType", Addr: addr, Scope: as.Addr.Scope, Type: ty.GoString(),
						Start: a.SrcRange.Start.Byte, End: a.SrcRange.End.Byte, DefStart: a.NameRange.Start.Byte, DefEnd: a.NameRange.End.Byte})
				} else if as.Cons.K == "oneof" {
					// one-of: the members that admit the written plain literal decide; determined when
					// they all give the same type and every other member is of a kind that declares no
					// targets (keyword, literal value, type declaration), wherever it stands in the list
					var tys []cty.Type
					others := false
					for _, mc := range as.Cons.Elems {
						if literalTokens(mc, a.Expr) != nil {
							if ty, ok := consType(mc); ok {
								tys = append(tys, ty)
							}
							continue
						}
						switch mc.K {
						case "keyword", "litval", "typedecl":
							// members that declare no targets at all
						default:
							// another member that may yield a target of its own type for a value it
							// does not really admit: which member wins is not decided
							others = true
						}
					}
					same := len(tys) > 0 && !others
					for _, ty := range tys {
						if !ty.Equals(tys[0]) {
							same = false
						}
					}
					if same {
						tm.Classes["attribute-as-expr-type(one-of)"] = true
						tm.Expected = append(tm.Expected, ExpTarget{Kind: "attr:asExprType(one-of)", Addr: addr, Scope: as.Addr.Scope, Type: tys[0].GoString(),
							Start: a.SrcRange.Start.Byte, End: a.SrcRange.End.Byte, DefStart: a.NameRange.Start.Byte, DefEnd: a.NameRange.End.Byte})
					}
				}
			}
		}
		for _, b := range bc.Body.Blocks {
			if b.Type == "dynamic" && bc.DynamicOn {
				tm.Ignore = append(tm.Ignore, BlockExtent(b))
				continue
			}
			bm, ok := s.Blocks[b.Type]
			if !ok {
				tm.Forbidden = append(tm.Forbidden, BlockExtent(b))
				continue
			}
			addr, ok := ResolveBlockAddr(bm, b)
			if !ok {
				continue
			}
			r, dr := b.Range(), b.DefRange()
			tm.Sources = append(tm.Sources, Source{"block", regionOf(r), addr})
			mk := func(kind, ty string) ExpTarget {
				return ExpTarget{Kind: kind, Addr: addr, Scope: bm.Addr.Scope, Type: ty, Start: r.Start.Byte, End: r.End.Byte, DefStart: dr.Start.Byte, DefEnd: dr.End.Byte}
			}
			for _, st := range bm.Addr.Steps {
				if st.K == "label" || st.K == "attrvalue" {
					tm.Classes["address-from-label/attribute-value"] = true
				}
			}
			if bm.Addr.AsReference {
				tm.Expected = append(tm.Expected, mk("block:asReference", "nil"))
				tm.Classes["block-as-reference"] = true
			}
			if bm.Addr.HasAsTypeOf {
				ty := cty.DynamicPseudoType
				if bm.Addr.AsTypeOf != "" && bm.Body != nil {
					if a, ok := b.Body.Attributes[bm.Addr.AsTypeOf]; ok && bm.Body.Attrs[bm.Addr.AsTypeOf].Cons.K == "typedecl" {
						if t, diags := typeexpr.TypeConstraint(a.Expr); !diags.HasErrors() {
							ty = t
						}
					}
				}
				tm.Expected = append(tm.Expected, mk("block:asTypeOf", ty.GoString()))
				tm.Classes["block-as-type-of"] = true
			}
			sel := Select(bm, b)
			switch {
			case bm.Addr.BodyAsData && bm.Addr.DepBodyAsData && sel.Index >= 0:
				// both flags with a selected dependent body: which type results is not decided (see DESIGN D22)
				tm.Expected = append(tm.Expected, mk("block:bodyAsData", ""))
			case bm.Addr.BodyAsData:
				tm.Expected = append(tm.Expected, mk("block:bodyAsData", BodyType(bm.Type, bm.Body).GoString()))
				tm.Classes["body-as-data"] = true
			case bm.Addr.DepBodyAsData && sel.Index >= 0 && sel.Resolved && !sel.Undetermined:
				dep := bm.Deps[sel.Index].Body
				tm.Expected = append(tm.Expected, mk("block:depBodyAsData", BodyType(bm.Type, &dep).GoString()))
				tm.Classes["dependent-body-as-data"] = true
			}
			if bm.Addr.UnknownNestedRefs {
				tm.Expected = append(tm.Expected, mk("block:unknownNested", cty.DynamicPseudoType.GoString()))
				tm.Classes["unknown-nested-refs"] = true
			}
		}
	})
	return tm
}

// AddrHasPrefix reports whether addr extends prefix by whole steps.
func AddrHasPrefix(addr, prefix string) bool {
	if !strings.HasPrefix(addr, prefix) {
		return false
	}
	rest := addr[len(prefix):]
	return rest == "" || rest[0] == '.' || rest[0] == '['
}

var _ = hcl.Pos{}
