package props

import (
	"strconv"
	"strings"
	"testing"

	"github.com/hashicorp/hcl-lang/lang"
	"github.com/hashicorp/hcl/v2"
	"github.com/hashicorp/hcl/v2/hclsyntax"

	"verif/harness/gen"
	m "verif/harness/model"
	"verif/harness/refmodel"
	"verif/harness/world"
)

type C12Case struct {
	World m.WorldM `json:"world"`
}

func genC12(g gen.G) C12Case {
	o := gen.WorldOpts{
		Schema:   gen.SchemaOpts{MaxDepth: 3, NoHooks: true, DepBoost: true, AddrPct: 40},
		Cfg:      gen.CfgOpts{Violations: 8, Layout: true, HalfTyped: 4},
		MaxPaths: 1, MaxFiles: 2, Edits: 2,
	}
	if g.Chance(55) {
		o.Edits = 0
	}
	if g.Chance(35) {
		// well-typed, parse-clean values: the innermost-literal clause applies to most of them
		o.Cfg.Typed, o.Cfg.HalfTyped, o.Edits = true, 0, 0
	}
	if g.Chance(30) {
		// value-centred world: rich any-expression attributes, nested values, resolving references
		return C12Case{World: g.ValueWorld(gen.CfgOpts{Typed: true, Layout: g.Chance(30)})}
	}
	return C12Case{World: g.World(o)}
}

func rangeEq(a, b hcl.Range) bool {
	return a.Filename == b.Filename && a.Start.Byte == b.Start.Byte && a.End.Byte == b.End.Byte
}

func checkC12(c C12Case) Result {
	var r Result
	w, pi := SafeBuild(func() *world.World { return world.Build(c.World) })
	if pi != nil {
		r.Exclude("library-panic(C01)")
		return r
	}
	d := w.Decoder()
	hovers := 0
	for pi, p := range c.World.Paths {
		pc := w.Reader.Ctx(p.Path)
		for _, f := range p.Files {
			hf := pc.Files[f.Name]
			body, ok := hf.Body.(*hclsyntax.Body)
			if !ok {
				continue
			}
			fi := analyseFile(f.Name, hf)
			src := []byte(f.Text)
			_, pdiags := hclsyntax.ParseConfig(src, f.Name, hcl.InitialPos)
			clean := !pdiags.HasErrors()
			rc := &rangeChecker{w: w, r: &r, infos: map[string]map[string]*fileInfo{p.Path: {f.Name: fi}}}
			for _, off := range BoundaryOffsets(src, 400) {
				cl := Call{Kind: "hover", Path: pi, File: f.Name, Byte: off}
				res := Exec(w, d, cl)
				if res.Panic != nil {
					r.Exclude("library-panic(C01)")
					continue
				}
				r.Evals++
				hd, _ := res.Val.(*lang.HoverData)
				tainted := len(fi.tainted) > 0 && fi.inTaint(off)
				if res.Err == nil && hd != nil {
					hovers++
					// ---- general validity
					if strings.TrimSpace(hd.Content.Value) == "" {
						r.Fail("hover-empty-content", "%s returned hover data without content", cl)
					}
					rc.cur = cl.String()
					rc.check("hover.Range", p.Path, hd.Range)
					// (hcl ranges are half-open: a cursor at the end of a range is behind it, not in it)
					if !(hd.Range.Start.Byte <= off && off < hd.Range.End.Byte) && hd.Range.Filename == f.Name {
						if tainted || fi.badKeys[rkey(hd.Range)] {
							r.Exclude("upstream-range")
						} else {
							r.Fail("hover-range-misses-cursor", "%s: hover range %d-%d does not contain the cursor\n%s", cl, hd.Range.Start.Byte, hd.Range.End.Byte, clip(f.Text, 600))
						}
					}
				}
				if p.Schema == nil || tainted {
					continue
				}
				// ---- element-level expectations from the model
				loc := refmodel.Locate(p.Schema, body, off)
				if loc.BC == nil || loc.BC.Undetermined {
					r.Exclude("dontcare:undetermined-region")
					continue
				}
				s := loc.BC.Schema
				got := res.Err == nil && hd != nil
				switch loc.Kind {
				case "attrName":
					a := loc.Attr
					if !(off >= a.NameRange.Start.Byte && off < a.NameRange.End.Byte) {
						continue
					}
					if s == nil {
						continue
					}
					as, known := s.Attrs[a.Name]
					isExt := s.Ext != nil && (s.Ext.Count && a.Name == "count" || s.Ext.ForEach && a.Name == "for_each")
					if known && isExt {
						r.Exclude("dontcare:declared-vs-extension-attribute")
						continue
					}
					if !known && s.AnyAttr != nil {
						as, known = *s.AnyAttr, true
					}
					r.Class("attribute-name")
					if isExt {
						if !got || !strings.HasPrefix(hd.Content.Value, "**"+a.Name+"**") || !rangeEq(hd.Range, a.SrcRange) {
							r.Fail("hover-attr:ext", "%s on the name of extension attribute %q: expected **%s** with the whole attribute as range, got %v", cl, a.Name, a.Name, hd)
						}
						continue
					}
					if !known {
						if got {
							r.Fail("hover-unknown-attr", "%s on the name of attribute %q unknown to the effective schema returned hover data %q", cl, a.Name, hd.Content.Value)
						}
						continue
					}
					if !got {
						r.Fail("hover-attr-missing", "%s on the name of known attribute %q returned nothing (err=%v)", cl, a.Name, res.Err)
						continue
					}
					if !strings.HasPrefix(hd.Content.Value, "**"+a.Name+"**") {
						r.Fail("hover-attr-content", "%s on attribute %q: content does not name the attribute: %q", cl, a.Name, hd.Content.Value)
					}
					if as.Desc != "" && !strings.Contains(hd.Content.Value, as.Desc) {
						r.Fail("hover-attr-description", "%s on attribute %q: content %q lacks the description %q of the effective schema", cl, a.Name, hd.Content.Value, as.Desc)
					}
					if !rangeEq(hd.Range, a.SrcRange) {
						r.Fail("hover-attr-range", "%s on attribute %q: range %d-%d is not the whole attribute %d-%d", cl, a.Name, hd.Range.Start.Byte, hd.Range.End.Byte, a.SrcRange.Start.Byte, a.SrcRange.End.Byte)
					}
				case "blockType":
					b := loc.Block
					if !(off >= b.TypeRange.Start.Byte && off < b.TypeRange.End.Byte) || s == nil {
						continue
					}
					if b.Type == "dynamic" && loc.BC.DynamicOn {
						r.Exclude("dontcare:dynamic-block")
						continue
					}
					r.Class("block-type")
					bs, known := s.Blocks[b.Type]
					if !known {
						if got {
							r.Fail("hover-unknown-block", "%s on block type %q unknown to the effective schema returned hover data %q", cl, b.Type, hd.Content.Value)
						}
						continue
					}
					if !got {
						r.Fail("hover-block-missing", "%s on known block type %q returned nothing (err=%v)", cl, b.Type, res.Err)
						continue
					}
					if !strings.HasPrefix(hd.Content.Value, "**"+b.Type+"**") {
						r.Fail("hover-block-content", "%s on block type %q: content does not name the block: %q", cl, b.Type, hd.Content.Value)
					}
					if bs.Desc != "" && !strings.Contains(hd.Content.Value, bs.Desc) {
						r.Fail("hover-block-description", "%s on block type %q: content %q lacks the description %q", cl, b.Type, hd.Content.Value, bs.Desc)
					}
					if !rangeEq(hd.Range, b.TypeRange) {
						r.Fail("hover-block-range", "%s on block type %q: range %d-%d is not the type keyword %d-%d", cl, b.Type, hd.Range.Start.Byte, hd.Range.End.Byte, b.TypeRange.Start.Byte, b.TypeRange.End.Byte)
					}
				case "label":
					b := loc.Block
					lr := b.LabelRanges[loc.LabelIdx]
					if !(off >= lr.Start.Byte && off < lr.End.Byte) || s == nil {
						continue
					}
					if b.Type == "dynamic" && loc.BC.DynamicOn {
						r.Exclude("dontcare:dynamic-block")
						continue
					}
					bs, known := s.Blocks[b.Type]
					if !known {
						continue
					}
					r.Class("label")
					if loc.LabelIdx >= len(bs.Labels) {
						if got {
							r.Fail("hover-surplus-label", "%s on surplus label %d of %q returned hover data %q", cl, loc.LabelIdx, b.Type, hd.Content.Value)
						}
						continue
					}
					if !got {
						r.Fail("hover-label-missing", "%s on label %d of known block %q returned nothing (err=%v)", cl, loc.LabelIdx, b.Type, res.Err)
						continue
					}
					if q := strconv.Quote(b.Labels[loc.LabelIdx]); !strings.Contains(hd.Content.Value, b.Labels[loc.LabelIdx]) && !strings.Contains(hd.Content.Value, q[1:len(q)-1]) {
						r.Fail("hover-label-content", "%s on label %q: content does not name the label: %q", cl, b.Labels[loc.LabelIdx], hd.Content.Value)
					}
					if !rangeEq(hd.Range, lr) {
						r.Fail("hover-label-range", "%s on label %q: range %d-%d is not the label %d-%d", cl, b.Labels[loc.LabelIdx], hd.Range.Start.Byte, hd.Range.End.Byte, lr.Start.Byte, lr.End.Byte)
					}
					// description: dependent body's when this key label selected one, else the label's own
					lm := bs.Labels[loc.LabelIdx]
					sel := refmodel.Select(bs, b)
					if sel.Undetermined {
						continue
					}
					wantDesc := lm.Desc
					if lm.DepKey && sel.Level1 >= 0 {
						r.Class("label-selecting-dependent-body")
						dep := bs.Deps[sel.Index].Body
						if dep.Desc != "" {
							wantDesc = dep.Desc
						}
					}
					if wantDesc != "" && !strings.Contains(hd.Content.Value, wantDesc) {
						r.Fail("hover-label-description", "%s on label %q: content %q lacks the description %q given by the effective schema", cl, b.Labels[loc.LabelIdx], hd.Content.Value, wantDesc)
					}
				case "attrValue":
					// innermost interpretable sub-expression: a plain literal inside a value whose
					// shape fits its constraint is described by itself
					if clean && fi.posModel && !loc.BC.Undetermined {
						if as, ok := attrSchemaAt(loc); ok {
							if vt, ok := refmodel.ModelValueTokens(as.Cons, loc.Attr.Expr, p.Funcs); ok {
								for _, lt := range vt.Required {
									if (lt.Type != "hcl-number" && lt.Type != "hcl-bool" && lt.Type != "hcl-string") || off < lt.Start || off >= lt.End {
										continue
									}
									r.Class("value:cursor-inside-determined-literal")
									if !got && constructorInConditionalBranch(loc.Attr.Expr, lt.Start, lt.End) {
										// hover (unlike semantic tokens) types the branches of a conditional as "any type",
										// under which a constructor is only interpreted when it is a literal as a whole
										r.Fail("hover-literal-missing:constructor-in-conditional-branch", "%s inside the literal %d-%d (%s), which lies in a list / object constructor that is a branch of a conditional: no hover data\n%s", cl, lt.Start, lt.End, lt.Type, clip(f.Text, 700))
									} else if !got {
										r.Fail("hover-literal-missing", "%s inside the literal %d-%d (%s) of a value that fits its constraint (%s): no hover data (err %v)\n%s", cl, lt.Start, lt.End, lt.Type, as.Cons.K, res.Err, clip(f.Text, 700))
									} else if (hd.Range.Start.Byte != lt.Start || hd.Range.End.Byte != lt.End) && constructorInConditionalBranch(loc.Attr.Expr, lt.Start, lt.End) {
										// same root cause: under "any type" the constructor is described as one literal
										r.Fail("hover-literal-not-innermost:constructor-in-conditional-branch", "%s inside the literal %d-%d (%s), which lies in a list / object constructor that is a branch of a conditional: hover range %d-%d is the enclosing constructor, not that literal (content %q)\n%s", cl, lt.Start, lt.End, lt.Type, hd.Range.Start.Byte, hd.Range.End.Byte, clip(hd.Content.Value, 200), clip(f.Text, 700))
									} else if hd.Range.Start.Byte != lt.Start || hd.Range.End.Byte != lt.End {
										r.Fail("hover-literal-not-innermost", "%s inside the literal %d-%d (%s): hover range %d-%d is not that literal (content %q)\n%s", cl, lt.Start, lt.End, lt.Type, hd.Range.Start.Byte, hd.Range.End.Byte, clip(hd.Content.Value, 200), clip(f.Text, 700))
									}
								}
							}
						}
					}
					if got {
						r.Class("value")
						er := loc.Attr.Expr.Range()
						if hd.Range.Start.Byte < loc.Attr.EqualsRange.End.Byte || hd.Range.End.Byte > er.End.Byte {
							if fi.badKeys[rkey(er)] || !clean {
								// error recovery may attach sub-expressions that lie outside the attribute's own range
								r.Exclude("upstream-range")
							} else {
								r.Fail("hover-value-range", "%s inside the value of %q: hover range %d-%d is not inside the value %d-%d", cl, loc.Attr.Name, hd.Range.Start.Byte, hd.Range.End.Byte, er.Start.Byte, er.End.Byte)
							}
						}
					}
				}
				if len(r.Failures) > 5 {
					return r
				}
			}
		}
	}
	r.NonTrivial = hovers > 0
	return r
}

// attrSchemaAt returns the schema of the attribute under the cursor (declared or any-attribute).
func attrSchemaAt(loc refmodel.Loc) (m.AttrM, bool) {
	if loc.BC == nil || loc.BC.Schema == nil || loc.Attr == nil {
		return m.AttrM{}, false
	}
	s := loc.BC.Schema
	if s.Ext != nil && (loc.Attr.Name == "count" || loc.Attr.Name == "for_each") {
		return m.AttrM{}, false
	}
	if a, ok := s.Attrs[loc.Attr.Name]; ok {
		return a, true
	}
	if s.AnyAttr != nil {
		return *s.AnyAttr, true
	}
	return m.AttrM{}, false
}

func TestC12(t *testing.T)        { Run(t, "C12", genC12, checkC12) }
func TestReplay_C12(t *testing.T) { Replay(t, "C12", checkC12) }

// constructorInConditionalBranch reports whether the range s-e lies inside a tuple / object
// constructor that is itself (part of) a branch of a conditional expression.
func constructorInConditionalBranch(expr hclsyntax.Expression, s, e int) bool {
	found := false
	var walk func(n hclsyntax.Expression, inBranch bool)
	walk = func(n hclsyntax.Expression, inBranch bool) {
		if n == nil || found {
			return
		}
		rg := n.Range()
		if s < rg.Start.Byte || e > rg.End.Byte {
			return
		}
		switch x := n.(type) {
		case *hclsyntax.ConditionalExpr:
			walk(x.Condition, inBranch)
			walk(x.TrueResult, true)
			walk(x.FalseResult, true)
		case *hclsyntax.ParenthesesExpr:
			walk(x.Expression, inBranch)
		case *hclsyntax.TupleConsExpr:
			if inBranch {
				found = true
				return
			}
			for _, el := range x.Exprs {
				walk(el, false)
			}
		case *hclsyntax.ObjectConsExpr:
			if inBranch {
				found = true
				return
			}
			for _, it := range x.Items {
				walk(it.ValueExpr, false)
			}
		case *hclsyntax.BinaryOpExpr:
			walk(x.LHS, false)
			walk(x.RHS, false)
		case *hclsyntax.UnaryOpExpr:
			walk(x.Val, false)
		case *hclsyntax.FunctionCallExpr:
			for _, a := range x.Args {
				walk(a, false)
			}
		case *hclsyntax.IndexExpr:
			walk(x.Key, false)
		}
	}
	walk(expr, false)
	return found
}
