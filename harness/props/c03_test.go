package props

import (
	"fmt"
	"reflect"
	"sort"
	"strings"
	"testing"

	"github.com/hashicorp/hcl-lang/lang"
	"github.com/hashicorp/hcl/v2"

	"verif/harness/gen"
	m "verif/harness/model"
	"verif/harness/oracle"
	"verif/harness/world"
)

type C03Case struct {
	World   m.WorldM `json:"world"`
	Queries []Call   `json:"queries"`
	History []Call   `json:"history"`
}

func genC03(g gen.G) C03Case {
	if g.Chance(20) {
		// a constructed candidate population around / above the limit of 100 (attributes, blocks,
		// labels, functions, object attributes, targets, hook candidates): which candidates are
		// kept when the list is cut must not depend on map iteration order
		l := LimitM{Kind: gen.Pick(g, limitKinds), N: gen.Pick(g, []int{99, 100, 101, 103, 130, 250})}
		if strings.HasPrefix(l.Kind, "hooks+") {
			l.Hooks = gen.Pick(g, []int{1, 40, 60, 99, 130})
		}
		l.Ext = g.Chance(40)
		w, file, cursor, _, _ := limitWorld(l)
		c := C03Case{World: w, Queries: wholePathCalls(w)}
		for _, pf := range []bool{false, true} {
			c.Queries = append(c.Queries, Call{Kind: "completion", Path: 0, File: file, Byte: cursor, Prefill: pf})
		}
		c.History = GenCalls(g, w, g.Int(0, 4))
		return c
	}
	o := gen.WorldOpts{
		Schema:   gen.SchemaOpts{MaxDepth: 2, Wide: true, AddrPct: 60, DepBoost: g.Chance(40)},
		Cfg:      gen.CfgOpts{Violations: 8, Layout: false},
		MaxPaths: 2, MaxFiles: 3, Edits: 1,
	}
	if g.Chance(60) {
		o.Edits = 0
	}
	sweep := g.Chance(50)
	if sweep {
		// small worlds, every cursor of one file: ambiguities between neighbouring
		// items (decided by map iteration order) sit at single offsets
		o.Schema.Wide = false
		o.Cfg.HalfTyped = 10
		o.Cfg.Layout = true
	}
	huge := !sweep && g.Chance(25)
	if huge {
		// populations around the candidate limit (95-130 functions / attributes / blocks): what
		// is left out when a list is cut must not depend on map iteration order
		o.Schema.Huge, o.Schema.MaxDepth, o.MaxFiles = true, 1, 2
	}
	w := g.World(o)
	if !sweep && !huge && g.Chance(30) {
		// a Terraform-like world: inferred bodies, self references, nested blocks, cross-path origins
		w = g.RefWorld(g.Int(1, 2), false)
	}
	c := C03Case{
		World:   w,
		Queries: append(GenCalls(g, w, g.Int(6, 12)), wholePathCalls(w)...),
		History: GenCalls(g, w, g.Int(0, 10)),
	}
	if huge {
		// completion where values start (functions and references are offered there) and where items start
		for pi, p := range w.Paths {
			for _, f := range p.Files {
				n := 0
				for i := 0; i+2 < len(f.Text) && n < 12; i++ {
					if f.Text[i] == '=' && f.Text[i+1] == ' ' {
						c.Queries = append(c.Queries, Call{Kind: "completion", Path: pi, File: f.Name, Byte: i + 2})
						n++
					}
				}
			}
		}
	}
	if sweep {
		pi := g.Int(0, len(w.Paths)-1)
		f := w.Paths[pi].Files[g.Int(0, len(w.Paths[pi].Files)-1)]
		for _, off := range BoundaryOffsets([]byte(f.Text), 300) {
			c.Queries = append(c.Queries, Call{Kind: "completion", Path: pi, File: f.Name, Byte: off}, Call{Kind: "hover", Path: pi, File: f.Name, Byte: off})
		}
	}
	return c
}

func wholePathCalls(w m.WorldM) []Call {
	var out []Call
	for pi, p := range w.Paths {
		for _, k := range []string{"collectTargets", "collectOrigins", "validate", "wsSymbols"} {
			out = append(out, Call{Kind: k, Path: pi})
		}
		for _, f := range p.Files {
			out = append(out, Call{Kind: "tokens", Path: pi, File: f.Name}, Call{Kind: "symbols", Path: pi, File: f.Name})
		}
	}
	return out
}

// NormResult renders a query outcome canonically. Everything is order
// sensitive except diagnostics, which are compared as an unordered collection.
func NormResult(res CallResult) (string, int) { return NormResultShift(res, nil) }

// NormResultShift is NormResult with every position passed through shift first.
func NormResultShift(res CallResult, shift func(hcl.Range) hcl.Range) (string, int) {
	canon := func(v interface{}) string {
		if shift == nil {
			return oracle.Canon(v)
		}
		return oracle.CanonShift(v, shift)
	}
	normDiags := func(ds hcl.Diagnostics) string {
		parts := make([]string, 0, len(ds))
		for _, d := range ds {
			parts = append(parts, canon(d))
		}
		sort.Strings(parts)
		return "[" + strings.Join(parts, "|") + "]"
	}
	if res.Panic != nil {
		return "PANIC", 0
	}
	errS := ""
	if res.Err != nil {
		errS = "err:" + res.Err.Error()
		if shift != nil {
			errS = fmt.Sprintf("err:%T", res.Err) // messages embed positions
		}
	}
	switch v := res.Val.(type) {
	case hcl.Diagnostics:
		return errS + normDiags(v), len(v)
	case lang.DiagnosticsMap:
		files := make([]string, 0, len(v))
		for f := range v {
			files = append(files, f)
		}
		sort.Strings(files)
		var sb strings.Builder
		n := 0
		for _, f := range files {
			sb.WriteString(f + "=" + normDiags(v[f]) + ";")
			n += len(v[f])
		}
		return errS + sb.String(), n
	}
	return errS + canon(res.Val), resultSize(res.Val)
}

// resultSize is the number of top-level elements of a collection-valued result.
func resultSize(v interface{}) int {
	if c, ok := v.(lang.Candidates); ok {
		return len(c.List)
	}
	rv := reflect.ValueOf(v)
	if rv.IsValid() && (rv.Kind() == reflect.Slice || rv.Kind() == reflect.Map) {
		return rv.Len()
	}
	return 0
}

func checkC03(c C03Case) Result {
	var r Result
	w1, pi := SafeBuild(func() *world.World { return world.Build(c.World) })
	if pi != nil {
		r.Exclude("library-panic(C01)")
		return r
	}
	d1 := w1.Decoder()
	base := make([]string, len(c.Queries))
	maxSize := 0
	evals := 0
	for i, q := range c.Queries {
		res := Exec(w1, d1, q)
		if res.Panic != nil {
			r.Exclude("library-panic(C01)")
			return r
		}
		var n int
		base[i], n = NormResult(res)
		if n > maxSize {
			maxSize = n
		}
	}
	compare := func(stage string, w *world.World, reps int, order ...int) {
		d := d1
		if w != w1 {
			d = w.Decoder()
		}
		if len(order) == 0 {
			for i := range c.Queries {
				order = append(order, i)
			}
		}
		for _, i := range order {
			q := c.Queries[i]
			for k := 0; k < reps; k++ {
				got, _ := NormResult(Exec(w, d, q))
				evals++
				if got != base[i] {
					r.Fail("nondeterministic:"+q.Kind+":"+stage, "%s: result of %s differs from the first evaluation\n first: %s\n later: %s",
						stage, q, around(base[i], got), around(got, base[i]))
					return
				}
			}
		}
	}
	// 1. repetition on the same decoder (Go re-randomises map iteration on every range)
	compare("repeat", w1, 5)
	// 2. after an arbitrary history of other queries
	for _, h := range c.History {
		Exec(w1, d1, h)
	}
	compare("after-history", w1, 1)
	// 3. on freshly constructed decoders over freshly built schemas and re-parsed files
	for k := 0; k < 3 && len(r.Failures) == 0; k++ {
		w2, pi := SafeBuild(func() *world.World { return world.Build(c.World) })
		if pi != nil {
			r.Exclude("library-panic(C01)")
			return r
		}
		// (in reverse, rotated and original order: the answer may not depend on what was asked before)
		n := len(c.Queries)
		order := make([]int, n)
		for i := range order {
			switch k {
			case 0:
				order[i] = n - 1 - i
			case 1:
				order[i] = (i + n/2) % n
			default:
				order[i] = i
			}
		}
		compare("fresh-decoder", w2, 1, order...)
	}
	// 4. as the very first operation on a pristine world (schema never used before, not
	// even by the collectors), given the same collected targets and origins
	for i := 0; i < len(c.Queries) && i < 40 && len(r.Failures) == 0; i++ {
		w3, pi := SafeBuild3(c.World, w1)
		if pi != nil {
			r.Exclude("library-panic(C01)")
			return r
		}
		got, _ := NormResult(Exec(w3, w3.Decoder(), c.Queries[i]))
		evals++
		if got != base[i] {
			r.Fail("nondeterministic:"+c.Queries[i].Kind+":pristine-world", "result of %s as the first operation on a freshly built world differs from the evaluation after other queries\n used:     %s\n pristine: %s",
				c.Queries[i], around(base[i], got), around(got, base[i]))
		}
	}
	r.Evals = evals
	r.NonTrivial = maxSize >= 2
	if maxSize >= 13 {
		r.Class("wide(>=13)")
	} else if maxSize >= 2 {
		r.Class("collection(2..12)")
	}
	if len(c.World.Paths) > 1 {
		r.Class("multi-path")
	}
	if len(c.History) > 0 {
		r.Class("with-history")
	}
	depClasses(&r, c.World, w1)
	return r
}

// SafeBuild3 builds the world without running anything on it and hands it the
// targets and origins collected in `from`.
func SafeBuild3(wm m.WorldM, from *world.World) (w *world.World, pi *PanicInfo) {
	defer func() {
		if p := recover(); p != nil {
			pi = &PanicInfo{Value: fmt.Sprint(p), Sig: "panic:build"}
		}
	}()
	w = world.Build(wm)
	for _, p := range wm.Paths {
		src, dst := from.Reader.Ctx(p.Path), w.Reader.Ctx(p.Path)
		if src != nil && dst != nil {
			dst.ReferenceTargets, dst.ReferenceOrigins = src.ReferenceTargets, src.ReferenceOrigins
		}
	}
	return w, nil
}

func clip(s string, n int) string {
	if len(s) <= n {
		return s
	}
	return s[:n] + fmt.Sprintf("...(%d bytes)", len(s))
}

func TestC03(t *testing.T)        { Run(t, "C03", genC03, checkC03) }
func TestReplay_C03(t *testing.T) { Replay(t, "C03", checkC03) }

// around shows a around its first difference with b.
func around(a, b string) string {
	i := 0
	for i < len(a) && i < len(b) && a[i] == b[i] {
		i++
	}
	lo := i - 300
	if lo < 0 {
		lo = 0
	}
	hi := i + 500
	if hi > len(a) {
		hi = len(a)
	}
	return fmt.Sprintf("(diff at %d of %d) ...%s", i, len(a), a[lo:hi])
}
