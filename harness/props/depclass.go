package props

import (
	"github.com/hashicorp/hcl/v2/hclsyntax"

	m "verif/harness/model"
	"verif/harness/refmodel"
	"verif/harness/world"
)

// depClasses labels a case by the dependent-body shapes its configuration
// actually instantiates (not merely declares): these are the shapes in which the
// decoder derives a block's effective schema from shared schema values.
func depClasses(r *Result, wm m.WorldM, w *world.World) {
	for _, p := range wm.Paths {
		if p.Schema == nil {
			continue
		}
		pc := w.Reader.Ctx(p.Path)
		if pc == nil {
			continue
		}
		for _, f := range p.Files {
			hf := pc.Files[f.Name]
			if hf == nil {
				continue
			}
			body, ok := hf.Body.(*hclsyntax.Body)
			if !ok {
				continue
			}
			refmodel.WalkBodies(p.Schema, body, func(bc *refmodel.BodyCtx) {
				if bc.BlockM == nil {
					return
				}
				if bc.Sel.Index >= 0 {
					r.Class("dep-body-selected")
				}
				if bc.Sel.Level1 >= 0 {
					for _, a := range bc.BlockM.Deps[bc.Sel.Level1].Body.Attrs {
						if a.DepKey {
							r.Class("dep-first-level-body-declares-key-attr")
							if bc.Depth == 1 {
								r.Class("dep-first-level-body-declares-key-attr(top-level block)")
							}
							break
						}
					}
					if bc.Sel.Level1 != bc.Sel.Index {
						r.Class("dep-second-level-selected")
					}
				}
			})
		}
	}
}
