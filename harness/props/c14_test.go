package props

import (
	"fmt"
	"sort"
	"strings"
	"testing"

	"github.com/hashicorp/hcl-lang/decoder"
	"github.com/hashicorp/hcl/v2"
	"github.com/hashicorp/hcl/v2/hclsyntax"
	"github.com/zclconf/go-cty/cty"

	"verif/harness/gen"
	m "verif/harness/model"
	"verif/harness/world"
)

type C14Case struct {
	World   m.WorldM `json:"world"`
	Queries []string `json:"queries"`
	// JSON with schema: one structured configuration rendered as HCL JSON (World unused)
	Dual *C19Case `json:"dual,omitempty"`
}

func genC14(g gen.G) C14Case {
	if g.Chance(25) {
		d := genC19(g)
		qs := []string{""}
		for i, n := 0, g.Int(1, 3); i < n; i++ {
			qs = append(qs, gen.Pick(g, []string{"variable", "a", "aws", "\"", "out", "zzz-miss", "cé", "resource \"aws\""}))
		}
		return C14Case{Dual: &d, Queries: qs}
	}
	o := gen.WorldOpts{
		Schema:   gen.SchemaOpts{MaxDepth: 2},
		Cfg:      gen.CfgOpts{Violations: 10, Layout: true},
		MaxPaths: 3, MaxFiles: 3, Edits: 1, Faults: true, NoSchema: 35,
	}
	if g.Chance(60) {
		o.Edits = 0
	}
	w := g.World(o)
	// query strings: substrings of existing names, the empty string and misses
	var names []string
	for _, p := range w.Paths {
		for _, f := range p.Files {
			hf, _ := hclsyntax.ParseConfig([]byte(f.Text), f.Name, hcl.InitialPos)
			if b, ok := hf.Body.(*hclsyntax.Body); ok {
				for n := range b.Attributes {
					names = append(names, n)
				}
				for _, bl := range b.Blocks {
					names = append(names, bl.Type)
					names = append(names, bl.Labels...)
				}
			}
		}
	}
	sort.Strings(names)
	qs := []string{""}
	n := g.Int(1, 4)
	for i := 0; i < n; i++ {
		switch {
		case len(names) > 0 && g.Chance(70):
			nm := gen.Pick(g, names)
			if len(nm) > 1 && g.Bool() {
				a := g.Int(0, len(nm)-1)
				b := g.Int(a+1, len(nm))
				nm = gen.TrimToRune(nm[a:b])
			}
			qs = append(qs, nm)
		default:
			qs = append(qs, gen.Pick(g, []string{"zzz-miss", " ", "\"", "A"}))
		}
	}
	return C14Case{World: w, Queries: qs}
}

// symNode is the expected (and the flattened actual) outline node.
type symNode struct {
	Kind     string // attr|block|expr
	Name     string
	Range    hcl.Range
	Children []symNode
}

func expectedSymbolsForBody(body *hclsyntax.Body) []symNode {
	var out []symNode
	for _, a := range body.Attributes {
		out = append(out, symNode{Kind: "attr", Name: a.Name, Range: a.SrcRange, Children: expectedSymbolsForExpr(a.Expr)})
	}
	for _, b := range body.Blocks {
		name := b.Type
		for _, l := range b.Labels {
			name += fmt.Sprintf(" %q", l)
		}
		n := symNode{Kind: "block", Name: name, Range: b.Range()}
		if b.Body != nil {
			n.Children = expectedSymbolsForBody(b.Body)
		}
		out = append(out, n)
	}
	sort.SliceStable(out, func(i, j int) bool { return out[i].Range.Start.Byte < out[j].Range.Start.Byte })
	return out
}

func expectedSymbolsForExpr(expr hclsyntax.Expression) []symNode {
	var out []symNode
	switch e := expr.(type) {
	case *hclsyntax.TupleConsExpr:
		for i, it := range e.Exprs {
			out = append(out, symNode{Kind: "expr", Name: fmt.Sprintf("%d", i), Range: it.Range(), Children: expectedSymbolsForExpr(it)})
		}
	case *hclsyntax.ObjectConsExpr:
		for _, it := range e.Items {
			key, _ := it.KeyExpr.Value(nil)
			if key.IsNull() || !key.IsWhollyKnown() || key.Type() != cty.String {
				continue // not literally keyed
			}
			out = append(out, symNode{Kind: "expr", Name: key.AsString(), Range: hcl.RangeBetween(it.KeyExpr.Range(), it.ValueExpr.Range()), Children: expectedSymbolsForExpr(it.ValueExpr)})
		}
	}
	return out
}

func actualSymbols(syms []decoder.Symbol) []symNode {
	var out []symNode
	for _, s := range syms {
		n := symNode{Name: s.Name(), Range: s.Range(), Children: actualSymbols(s.NestedSymbols())}
		switch s.(type) {
		case *decoder.AttributeSymbol:
			n.Kind = "attr"
		case *decoder.BlockSymbol:
			n.Kind = "block"
		case *decoder.ExprSymbol:
			n.Kind = "expr"
		}
		out = append(out, n)
	}
	return out
}

func renderSyms(ns []symNode, indent string, sb *strings.Builder) {
	for _, n := range ns {
		fmt.Fprintf(sb, "%s%s %q %s:%d-%d\n", indent, n.Kind, n.Name, n.Range.Filename, n.Range.Start.Byte, n.Range.End.Byte)
		renderSyms(n.Children, indent+"  ", sb)
	}
}

func symString(ns []symNode) string {
	var sb strings.Builder
	renderSyms(ns, "", &sb)
	return sb.String()
}

func symDepth(ns []symNode) int {
	d := 0
	for _, n := range ns {
		if c := 1 + symDepth(n.Children); c > d {
			d = c
		}
	}
	return d
}

// childInsideParent checks that every child's range lies inside its parent's.
func childInsideParent(ns []symNode, parent *symNode, r *Result, fi *fileInfo) {
	for i := range ns {
		n := &ns[i]
		if parent != nil {
			if n.Range.Start.Byte < parent.Range.Start.Byte || n.Range.End.Byte > parent.Range.End.Byte {
				if fi != nil && (fi.badKeys[rkey(n.Range)] || fi.badKeys[rkey(parent.Range)] || fi.inTaint(n.Range.Start.Byte)) {
					r.Exclude("upstream-range")
				} else {
					r.Fail("symbol-child-outside-parent", "symbol %q (%d-%d) is not inside its parent %q (%d-%d)", n.Name, n.Range.Start.Byte, n.Range.End.Byte, parent.Name, parent.Range.Start.Byte, parent.Range.End.Byte)
				}
			}
		}
		childInsideParent(n.Children, n, r, fi)
	}
}

// expectedJSONOutline is the block/attribute outline of a structured configuration in
// the order the JSON renderer writes it: attributes in order, then the block types
// in order of first occurrence, each with its blocks in order.
func expectedJSONOutline(items []gen.DualItem) []symNode {
	var out []symNode
	var order []string
	groups := map[string][]symNode{}
	for _, it := range items {
		if it.Kind == "attr" {
			out = append(out, symNode{Kind: "attr", Name: it.Name})
			continue
		}
		name := it.Name
		for _, l := range it.Labels {
			name += fmt.Sprintf(" %q", l)
		}
		if _, ok := groups[it.Name]; !ok {
			order = append(order, it.Name)
		}
		groups[it.Name] = append(groups[it.Name], symNode{Kind: "block", Name: name, Children: expectedJSONOutline(it.Body)})
	}
	for _, t := range order {
		out = append(out, groups[t]...)
	}
	return out
}

// outlineString renders kinds, names and nesting of blocks and attributes (no ranges, no
// expression children: what JSON expressions yield as nested symbols is not stated).
func outlineString(ns []symNode, indent string) string {
	var sb strings.Builder
	for _, n := range ns {
		if n.Kind == "expr" {
			continue
		}
		fmt.Fprintf(&sb, "%s%s %q\n", indent, n.Kind, n.Name)
		sb.WriteString(outlineString(n.Children, indent+"  "))
	}
	return sb.String()
}

// siblingsOrdered checks that siblings are in source order (JSON blocks written under one
// key share that key's start, so extents of siblings may overlap: only the order is judged).
func siblingsOrdered(ns []symNode, r *Result, text string) {
	for i := range ns {
		if i > 0 && ns[i].Range.Start.Byte < ns[i-1].Range.Start.Byte && ns[i].Kind != "expr" && ns[i-1].Kind != "expr" {
			r.Fail("json-symbols-order", "symbols %q (%d-%d) and %q (%d-%d) are not in source order\n%s", ns[i-1].Name, ns[i-1].Range.Start.Byte, ns[i-1].Range.End.Byte,
				ns[i].Name, ns[i].Range.Start.Byte, ns[i].Range.End.Byte, clip(text, 1500))
		}
		siblingsOrdered(ns[i].Children, r, text)
	}
}

func checkC14Dual(c C14Case) Result {
	var r Result
	jsonText := gen.RenderJSONLayout(c.Dual.Items, c.Dual.Layout)
	schema := c.Dual.Schema
	wm := m.WorldM{Paths: []m.PathM{{Path: "p0", Schema: &schema, Files: []m.FileM{{Name: "main.tf.json", Text: jsonText, JSON: true}}}}}
	w, pi := SafeBuild(func() *world.World { return world.Build(wm) })
	if pi != nil {
		r.Exclude("library-panic(C01)")
		return r
	}
	d := w.Decoder()
	want := expectedJSONOutline(c.Dual.Items)
	// The document-symbol entry point rejects JSON files with an error value ("unknown file
	// format") by design; the outline of a JSON file is only served through the workspace
	// query, whose symbols carry their nested symbols. Either answer of SymbolsInFile is
	// accepted, the outline is judged on the workspace query with the empty query string.
	res := Exec(w, d, Call{Kind: "wsSymbols", Path: 0, Query: ""})
	if res.Panic != nil {
		r.Exclude("library-panic(C01)")
		return r
	}
	r.Evals++
	if res.Err != nil {
		r.Fail("json-symbols-error", "Symbols(\"\") returned error %v\n%s", res.Err, clip(jsonText, 1500))
		return r
	}
	got := actualSymbols(res.Val.([]decoder.Symbol))
	if a, b := outlineString(want, ""), outlineString(got, ""); a != b {
		r.Fail("json-symbols-outline", "Symbols(\"\") over main.tf.json is not the outline of the configuration\n expected:\n%s\n got:\n%s\n file:\n%s", clip(a, 1500), clip(b, 1500), clip(jsonText, 1500))
	}
	files := map[string][]byte{"main.tf.json": []byte(jsonText)}
	var walk func(ns []symNode)
	walk = func(ns []symNode) {
		for _, n := range ns {
			if n.Range.Filename != "main.tf.json" || n.Range.Start.Byte < 0 || n.Range.End.Byte > len(jsonText) || n.Range.Start.Byte >= n.Range.End.Byte {
				r.Fail("json-symbol-range", "symbol %q has range %v outside the file / empty (file length %d)", n.Name, n.Range, len(files["main.tf.json"]))
			}
			walk(n.Children)
		}
	}
	walk(got)
	childInsideParent(got, nil, &r, nil)
	siblingsOrdered(got, &r, jsonText)
	// workspace query
	hits, misses := false, false
	for _, q := range c.Queries {
		x := Exec(w, d, Call{Kind: "wsSymbols", Path: 0, Query: q})
		if x.Panic != nil {
			r.Exclude("library-panic(C01)")
			continue
		}
		r.Evals++
		var sel []symNode
		for _, n := range want {
			if q == "" || strings.Contains(n.Name, q) {
				sel = append(sel, n)
				hits = true
			} else {
				misses = true
			}
		}
		gotQ := actualSymbols(x.Val.([]decoder.Symbol))
		if a, b := outlineString(sel, ""), outlineString(gotQ, ""); a != b {
			r.Fail("json-workspace-symbols", "Symbols(%q) differs from the top-level symbols whose name contains the query\n expected:\n%s\n got:\n%s\n file:\n%s", q, clip(a, 1200), clip(b, 1200), clip(jsonText, 1200))
		}
	}
	r.Class("json-with-schema")
	depth := symDepth(want)
	if depth >= 2 {
		r.Class("nested(depth>=2)")
	}
	if hits && misses {
		r.Class("query-hits-and-misses")
	}
	r.NonTrivial = depth >= 2
	return r
}

func checkC14(c C14Case) Result {
	if c.Dual != nil {
		return checkC14Dual(c)
	}
	var r Result
	w, pi := SafeBuild(func() *world.World { return world.Build(c.World) })
	if pi != nil {
		r.Exclude("library-panic(C01)")
		return r
	}
	d := w.Decoder()
	maxDepth := 0
	// expected top-level symbols per readable path, files in name order
	type pathSyms struct {
		path string
		syms []symNode
	}
	var perPath []pathSyms
	for pi, p := range c.World.Paths {
		pc := w.Reader.Ctx(p.Path)
		names := make([]string, 0, len(pc.Files))
		for n := range pc.Files {
			names = append(names, n)
		}
		sort.Strings(names)
		var all []symNode
		for _, fname := range names {
			hf := pc.Files[fname]
			body, ok := hf.Body.(*hclsyntax.Body)
			if !ok {
				continue
			}
			want := expectedSymbolsForBody(body)
			all = append(all, want...)
			if dp := symDepth(want); dp > maxDepth {
				maxDepth = dp
			}
			if p.Faulty {
				continue
			}
			res := Exec(w, d, Call{Kind: "symbols", Path: pi, File: fname})
			if res.Panic != nil {
				r.Exclude("library-panic(C01)")
				continue
			}
			r.Evals++
			if res.Err != nil {
				r.Fail("symbols-error", "SymbolsInFile(%s) returned error %v for a native file", fname, res.Err)
				continue
			}
			got := actualSymbols(res.Val.([]decoder.Symbol))
			if a, b := symString(want), symString(got); a != b {
				r.Fail("symbols-outline", "SymbolsInFile(%s) is not the outline of the file\n expected:\n%s\n got:\n%s\n file:\n%s", fname, clip(a, 1500), clip(b, 1500), clip(string(hf.Bytes), 800))
			}
			childInsideParent(got, nil, &r, analyseFile(fname, hf))
		}
		if !p.Faulty {
			perPath = append(perPath, pathSyms{p.Path, all})
		}
	}
	// workspace symbols
	hits, misses := false, false
	for _, q := range c.Queries {
		res := Exec(w, d, Call{Kind: "wsSymbols", Path: 0, Query: q})
		if res.Panic != nil {
			r.Exclude("library-panic(C01)")
			continue
		}
		r.Evals++
		var want []symNode
		for _, ps := range perPath {
			for _, s := range ps.syms {
				if q == "" || strings.Contains(s.Name, q) {
					want = append(want, s)
					hits = true
				} else {
					misses = true
				}
			}
		}
		got := actualSymbols(res.Val.([]decoder.Symbol))
		if a, b := symString(want), symString(got); a != b {
			r.Fail("workspace-symbols", "Symbols(%q) differs from the top-level symbols of all readable paths whose name contains the query\n expected:\n%s\n got:\n%s", q, clip(a, 1500), clip(b, 1500))
		}
		// every reported symbol carries the path it belongs to
		syms := res.Val.([]decoder.Symbol)
		i := 0
		for _, ps := range perPath {
			for _, s := range ps.syms {
				if q == "" || strings.Contains(s.Name, q) {
					if i < len(syms) && syms[i].Path().Path != ps.path {
						r.Fail("workspace-symbol-path", "Symbols(%q): symbol %q reported for path %q, expected %q", q, s.Name, syms[i].Path().Path, ps.path)
					}
					i++
				}
			}
		}
	}
	faulty := false
	for _, p := range c.World.Paths {
		if p.Faulty {
			faulty = true
		}
	}
	if faulty {
		r.Class("unreadable-path")
	}
	if maxDepth >= 2 {
		r.Class("nested(depth>=2)")
	}
	if hits && misses {
		r.Class("query-hits-and-misses")
	}
	r.NonTrivial = maxDepth >= 2 || faulty || (hits && misses)
	return r
}

func TestC14(t *testing.T)        { Run(t, "C14", genC14, checkC14) }
func TestReplay_C14(t *testing.T) { Replay(t, "C14", checkC14) }
