package props

import (
	"fmt"
	"reflect"
	"testing"

	"github.com/hashicorp/hcl-lang/lang"
	"github.com/hashicorp/hcl-lang/schema"
	"github.com/zclconf/go-cty/cty"
	"pgregory.net/rapid"

	"verif/harness/gen"
	"verif/harness/oracle"
)

// C17Case: the value is built deterministically from a "tape" of choices by a
// reflection-driven populator, so it is replayable without rapid.
type C17Case struct {
	Type  string   `json:"type"`
	Depth int      `json:"depth"`
	Tape  []uint32 `json:"tape"`
}

// copyRoots lists a zero value of every schema type that has a Copy method.
var copyRoots = map[string]reflect.Type{
	"*BodySchema":                 reflect.TypeOf(&schema.BodySchema{}),
	"*BlockSchema":                reflect.TypeOf(&schema.BlockSchema{}),
	"*AttributeSchema":            reflect.TypeOf(&schema.AttributeSchema{}),
	"*LabelSchema":                reflect.TypeOf(&schema.LabelSchema{}),
	"*BlockAddrSchema":            reflect.TypeOf(&schema.BlockAddrSchema{}),
	"*AttributeAddrSchema":        reflect.TypeOf(&schema.AttributeAddrSchema{}),
	"*BlockAsTypeOf":              reflect.TypeOf(&schema.BlockAsTypeOf{}),
	"*BodyExtensions":             reflect.TypeOf(&schema.BodyExtensions{}),
	"*DocsLink":                   reflect.TypeOf(&schema.DocsLink{}),
	"*Target":                     reflect.TypeOf(&schema.Target{}),
	"*PathTarget":                 reflect.TypeOf(&schema.PathTarget{}),
	"*FunctionSignature":          reflect.TypeOf(&schema.FunctionSignature{}),
	"*Targetable":                 reflect.TypeOf(&schema.Targetable{}),
	"*ReferenceAddrSchema":        reflect.TypeOf(&schema.ReferenceAddrSchema{}),
	"ImpliedOrigin":               reflect.TypeOf(schema.ImpliedOrigin{}),
	"Address":                     reflect.TypeOf(schema.Address{}),
	"ObjectAttributes":            reflect.TypeOf(schema.ObjectAttributes{}),
	"AnyExpression":               reflect.TypeOf(schema.AnyExpression{}),
	"Keyword":                     reflect.TypeOf(schema.Keyword{}),
	"List":                        reflect.TypeOf(schema.List{}),
	"Set":                         reflect.TypeOf(schema.Set{}),
	"Map":                         reflect.TypeOf(schema.Map{}),
	"Tuple":                       reflect.TypeOf(schema.Tuple{}),
	"Object":                      reflect.TypeOf(schema.Object{}),
	"OneOf":                       reflect.TypeOf(schema.OneOf{}),
	"Reference":                   reflect.TypeOf(schema.Reference{}),
	"LiteralType":                 reflect.TypeOf(schema.LiteralType{}),
	"LiteralValue":                reflect.TypeOf(schema.LiteralValue{}),
	"TypeDeclaration":             reflect.TypeOf(schema.TypeDeclaration{}),
	"lang.Address":                reflect.TypeOf(lang.Address{}),
	"lang.CompletionHooks":        reflect.TypeOf(lang.CompletionHooks{}),
	"lang.SemanticTokenModifiers": reflect.TypeOf(lang.SemanticTokenModifiers{}),
}

var copyRootNames = func() []string {
	var out []string
	for n := range copyRoots {
		out = append(out, n)
	}
	sortStr(out)
	return out
}()

func sortStr(s []string) {
	for i := 1; i < len(s); i++ {
		for j := i; j > 0 && s[j] < s[j-1]; j-- {
			s[j], s[j-1] = s[j-1], s[j]
		}
	}
}

var (
	constraintIface = reflect.TypeOf((*schema.Constraint)(nil)).Elem()
	addrStepIface   = reflect.TypeOf((*schema.AddrStep)(nil)).Elem()
	defaultIface    = reflect.TypeOf((*schema.Default)(nil)).Elem()
	langStepIface   = reflect.TypeOf((*lang.AddressStep)(nil)).Elem()
	ctyTypeT        = reflect.TypeOf(cty.Type{})
	ctyValueT       = reflect.TypeOf(cty.Value{})
	schemaAddrT     = reflect.TypeOf(schema.Address{})
	langAddrT       = reflect.TypeOf(lang.Address{})

	constraintImpls = []reflect.Type{
		reflect.TypeOf(schema.AnyExpression{}), reflect.TypeOf(schema.Keyword{}), reflect.TypeOf(schema.List{}),
		reflect.TypeOf(schema.LiteralType{}), reflect.TypeOf(schema.LiteralValue{}), reflect.TypeOf(schema.Map{}),
		reflect.TypeOf(schema.Object{}), reflect.TypeOf(schema.OneOf{}), reflect.TypeOf(schema.Reference{}),
		reflect.TypeOf(schema.Set{}), reflect.TypeOf(schema.Tuple{}), reflect.TypeOf(schema.TypeDeclaration{}),
	}
	addrStepImpls = []reflect.Type{
		reflect.TypeOf(schema.StaticStep{}), reflect.TypeOf(schema.LabelStep{}), reflect.TypeOf(schema.AttrNameStep{}), reflect.TypeOf(schema.AttrValueStep{}),
	}
	langStepImpls = []reflect.Type{
		reflect.TypeOf(lang.RootStep{}), reflect.TypeOf(lang.AttrStep{}), reflect.TypeOf(lang.IndexStep{}),
	}
	someTypes = []cty.Type{cty.String, cty.Number, cty.Bool, cty.DynamicPseudoType, cty.List(cty.String), cty.Map(cty.Number),
		cty.Object(map[string]cty.Type{"a": cty.String}), cty.Tuple([]cty.Type{cty.Bool, cty.String}), cty.Set(cty.String)}
	someValues = []cty.Value{cty.StringVal("x"), cty.NumberIntVal(7), cty.True, cty.ListVal([]cty.Value{cty.StringVal("a")}),
		cty.ObjectVal(map[string]cty.Value{"k": cty.NumberIntVal(1)}), cty.MapVal(map[string]cty.Value{"k": cty.StringVal("v")}),
		cty.TupleVal([]cty.Value{cty.False, cty.StringVal("t")}), cty.SetVal([]cty.Value{cty.StringVal("s")})}
)

type cannotPopulate struct{ what string }

// populator fills values from a tape of choices.
type populator struct {
	tape []uint32
	pos  int
}

func (p *populator) next() uint32 {
	if len(p.tape) == 0 {
		return 1
	}
	v := p.tape[p.pos%len(p.tape)] + uint32(p.pos/len(p.tape))
	p.pos++
	return v
}

// fill populates v (settable) with a non-zero value; depth limits recursion.
func (p *populator) fill(v reflect.Value, depth int) {
	t := v.Type()
	switch t {
	case ctyTypeT:
		v.Set(reflect.ValueOf(someTypes[int(p.next())%len(someTypes)]))
		return
	case ctyValueT:
		v.Set(reflect.ValueOf(someValues[int(p.next())%len(someValues)]))
		return
	}
	switch t.Kind() {
	case reflect.Bool:
		// mostly true (a dropped field shows), sometimes false so that neighbouring
		// flags differ (a field copied from its neighbour shows)
		v.SetBool(p.next()%4 != 0)
	case reflect.Int, reflect.Int8, reflect.Int16, reflect.Int32, reflect.Int64:
		v.SetInt(int64(p.next()%5) + 1)
	case reflect.Uint, reflect.Uint8, reflect.Uint16, reflect.Uint32, reflect.Uint64:
		v.SetUint(uint64(p.next()%5) + 1)
	case reflect.Float32, reflect.Float64:
		v.SetFloat(float64(p.next()%5) + 0.5)
	case reflect.String:
		v.SetString(fmt.Sprintf("s%d", p.next()%7))
	case reflect.Struct:
		for i := 0; i < t.NumField(); i++ {
			if t.Field(i).PkgPath != "" {
				panic(cannotPopulate{fmt.Sprintf("unexported field %s.%s", t, t.Field(i).Name)})
			}
			p.fill(v.Field(i), depth)
		}
	case reflect.Ptr:
		if depth <= 0 {
			return // leave nil
		}
		nv := reflect.New(t.Elem())
		p.fill(nv.Elem(), depth-1)
		v.Set(nv)
	case reflect.Slice:
		n := int(p.next()%3) + 0
		if depth <= 0 && t.Elem().Kind() != reflect.String && t.Elem().Kind() != reflect.Struct && t.Elem().Kind() != reflect.Interface {
			n = 0
		}
		if depth <= 0 && t.Elem().Kind() == reflect.Interface && t.Elem() == constraintIface {
			n = 0
		}
		if depth <= 1 && t.Elem().Kind() == reflect.Ptr {
			n = 0 // never create nil entries (outside the documented domain)
		}
		if n == 0 {
			if p.next()%2 == 0 {
				v.Set(reflect.MakeSlice(t, 0, 0))
			}
			return
		}
		// (spare capacity 0..3: a copy that merely re-slices or grows in place shares the backing array)
		sl := reflect.MakeSlice(t, n, n+int(p.next()%4))
		for i := 0; i < n; i++ {
			p.fill(sl.Index(i), depth-1)
		}
		v.Set(sl)
	case reflect.Map:
		n := int(p.next()%3) + 0
		if depth <= 0 || (depth <= 1 && t.Elem().Kind() == reflect.Ptr) {
			n = 0
		}
		if n == 0 {
			if p.next()%2 == 0 {
				v.Set(reflect.MakeMap(t))
			}
			return
		}
		mp := reflect.MakeMap(t)
		var prev reflect.Value
		for i := 0; i < n; i++ {
			k := reflect.New(t.Key()).Elem()
			p.fill(k, depth-1)
			if k.Kind() == reflect.String {
				k.SetString(fmt.Sprintf("k%d", i))
			}
			e := reflect.New(t.Elem()).Elem()
			if i > 0 && t.Elem().Kind() == reflect.Ptr && prev.IsValid() && !prev.IsNil() && p.next()%3 == 0 {
				// the same pointer registered under two keys (as schema providers do for
				// dependent bodies reachable through several keys)
				e.Set(prev)
			} else {
				p.fill(e, depth-1)
			}
			prev = e
			mp.SetMapIndex(k, e)
		}
		v.Set(mp)
	case reflect.Interface:
		var impls []reflect.Type
		switch t {
		case constraintIface:
			impls = constraintImpls
			if depth <= 0 {
				impls = []reflect.Type{reflect.TypeOf(schema.LiteralType{}), reflect.TypeOf(schema.Keyword{}), reflect.TypeOf(schema.TypeDeclaration{})}
			}
		case addrStepIface:
			impls = addrStepImpls
		case langStepIface:
			impls = langStepImpls
		case defaultIface:
			impls = []reflect.Type{reflect.TypeOf(schema.DefaultValue{})}
		default:
			panic(cannotPopulate{"interface " + t.String()})
		}
		it := impls[int(p.next())%len(impls)]
		iv := reflect.New(it).Elem()
		p.fill(iv, depth-1)
		if it == reflect.TypeOf(lang.IndexStep{}) {
			iv.Field(0).Set(reflect.ValueOf(cty.StringVal("idx")))
		}
		v.Set(iv)
	default:
		panic(cannotPopulate{"kind " + t.Kind().String() + " (" + t.String() + ")"})
	}
}

func genC17(g gen.G) C17Case {
	return C17Case{
		Type:  gen.Pick(g, copyRootNames),
		Depth: g.Int(1, 4),
		Tape:  rapid.SliceOfN(rapid.Uint32Range(0, 11), 8, 40).Draw(g.T, "tape"),
	}
}

// exemptFromAliasing: immutable-by-convention values that may be shared.
func exemptFromAliasing(t reflect.Type) bool {
	return t == constraintIface || t == schemaAddrT || t == langAddrT || t == ctyTypeT || t == ctyValueT ||
		t.Implements(constraintIface) && t.Kind() != reflect.Ptr
}

// scramble overwrites every mutable container reachable from v (maps, slices,
// pointees), descending first. Exempt values are left alone.
func scramble(v reflect.Value, depth int) {
	if !v.IsValid() || depth > 40 {
		return
	}
	if exemptFromAliasing(v.Type()) {
		return
	}
	switch v.Kind() {
	case reflect.Ptr:
		if v.IsNil() {
			return
		}
		scramble(v.Elem(), depth+1)
		if v.Elem().CanSet() {
			zeroScalars(v.Elem())
		}
	case reflect.Interface:
		// interface values hold copies of structs; nothing addressable to mutate
	case reflect.Struct:
		for i := 0; i < v.NumField(); i++ {
			if v.Type().Field(i).PkgPath == "" {
				scramble(v.Field(i), depth+1)
			}
		}
	case reflect.Slice:
		for i := 0; i < v.Len(); i++ {
			scramble(v.Index(i), depth+1)
		}
		// overwrite elements (including spare capacity) with zero values
		full := v
		if v.Cap() > v.Len() {
			full = v.Slice3(0, v.Cap(), v.Cap())
		}
		for i := 0; i < full.Len(); i++ {
			if full.Index(i).CanSet() {
				full.Index(i).Set(reflect.Zero(v.Type().Elem()))
			}
		}
	case reflect.Map:
		if v.IsNil() {
			return
		}
		for _, k := range v.MapKeys() {
			scramble(v.MapIndex(k), depth+1)
		}
		for _, k := range v.MapKeys() {
			v.SetMapIndex(k, reflect.Value{}) // delete
		}
		nk := reflect.New(v.Type().Key()).Elem()
		if nk.Kind() == reflect.String {
			nk.SetString("scrambled")
		}
		v.SetMapIndex(nk, reflect.Zero(v.Type().Elem()))
	}
}

// zeroScalars flips the scalar fields of a struct a pointer points to.
func zeroScalars(v reflect.Value) {
	if v.Kind() != reflect.Struct {
		return
	}
	for i := 0; i < v.NumField(); i++ {
		f := v.Field(i)
		if !f.CanSet() || exemptFromAliasing(f.Type()) {
			continue
		}
		switch f.Kind() {
		case reflect.Bool:
			f.SetBool(!f.Bool())
		case reflect.String:
			f.SetString(f.String() + "!")
		case reflect.Int, reflect.Int8, reflect.Int16, reflect.Int32, reflect.Int64:
			f.SetInt(f.Int() + 100)
		case reflect.Uint, reflect.Uint8, reflect.Uint16, reflect.Uint32, reflect.Uint64:
			f.SetUint(f.Uint() + 100)
		}
	}
}

func callCopy(v reflect.Value) (out reflect.Value, panicked interface{}) {
	defer func() {
		if p := recover(); p != nil {
			panicked = p
		}
	}()
	m := v.MethodByName("Copy")
	if !m.IsValid() {
		panic(cannotPopulate{"no Copy method on " + v.Type().String()})
	}
	res := m.Call(nil)
	return res[0], nil
}

func buildC17(c C17Case) reflect.Value {
	t := copyRoots[c.Type]
	p := &populator{tape: c.Tape}
	holder := reflect.New(t).Elem()
	if t.Kind() == reflect.Ptr {
		nv := reflect.New(t.Elem())
		p.fill(nv.Elem(), c.Depth)
		holder.Set(nv)
	} else {
		p.fill(holder, c.Depth)
	}
	return holder
}

func hasNestedContainer(v reflect.Value, depth int) bool {
	if !v.IsValid() || depth > 30 {
		return false
	}
	switch v.Kind() {
	case reflect.Ptr, reflect.Interface:
		if v.IsNil() {
			return false
		}
		return hasNestedContainer(v.Elem(), depth+1)
	case reflect.Struct:
		if v.Type() == ctyTypeT || v.Type() == ctyValueT {
			return false
		}
		for i := 0; i < v.NumField(); i++ {
			if hasNestedContainer(v.Field(i), depth+1) {
				return true
			}
		}
	case reflect.Map, reflect.Slice:
		return v.Len() > 0
	}
	return false
}

func checkC17(c C17Case) (r Result) {
	defer func() {
		if p := recover(); p != nil {
			if cp, ok := p.(cannotPopulate); ok {
				// a field the populator has no generator for: fail loudly, never pass vacuously
				r.Fail("populate:"+c.Type, "cannot populate %s: %s (a new field or type needs a generator)", c.Type, cp.what)
				return
			}
			panic(p)
		}
	}()
	if _, ok := copyRoots[c.Type]; !ok {
		r.Fail("populate:unknown-type", "unknown type %s", c.Type)
		return r
	}
	orig := buildC17(c)
	r.Class(c.Type)
	r.NonTrivial = hasNestedContainer(orig, 0)

	before := oracle.Snapshot(orig.Interface())
	cp, pv := callCopy(orig)
	if pv != nil {
		r.Fail("copy-panic:"+c.Type, "%s.Copy() panicked: %v", c.Type, pv)
		return r
	}
	// 1. the original is untouched by Copy itself
	if after := oracle.Snapshot(orig.Interface()); after != before {
		r.Fail("copy-mutates:"+c.Type, "%s.Copy() modified its receiver", c.Type)
	}
	// 2. structural equality in every field (nil == empty for slices and maps)
	a, b := oracle.CanonLoose(orig.Interface()), oracle.CanonLoose(cp.Interface())
	if a != b {
		r.Fail("copy-unequal:"+c.Type+":"+firstDiffField(a, b), "%s.Copy() is not equal to the original:\n orig: %s\n copy: %s", c.Type, a, b)
		return r
	}
	// 3. independence: scrambling the copy leaves the original unchanged ...
	holder := reflect.New(cp.Type()).Elem()
	holder.Set(cp)
	scramble(holder, 0)
	if after := oracle.Snapshot(orig.Interface()); after != before {
		r.Fail("copy-aliased:"+c.Type, "mutating the copy of %s changed the original:\n before: %s\n after:  %s", c.Type, before, after)
		return r
	}
	// ... and vice versa
	cp2, _ := callCopy(orig)
	snap2 := oracle.Snapshot(cp2.Interface())
	oh := reflect.New(orig.Type()).Elem()
	oh.Set(orig)
	scramble(oh, 0)
	if after := oracle.Snapshot(cp2.Interface()); after != snap2 {
		r.Fail("copy-aliased-rev:"+c.Type, "mutating the original %s changed its copy:\n before: %s\n after:  %s", c.Type, snap2, after)
	}
	return r
}

// firstDiffField extracts the name of the struct field at the first difference.
func firstDiffField(a, b string) string {
	n := len(a)
	if len(b) < n {
		n = len(b)
	}
	i := 0
	for i < n && a[i] == b[i] {
		i++
	}
	// walk back to the preceding "Name:"
	j := i
	for j > 0 && a[j-1] != ':' {
		j--
	}
	k := j - 1
	for k > 0 && (a[k-1] == '_' || a[k-1] >= 'A' && a[k-1] <= 'Z' || a[k-1] >= 'a' && a[k-1] <= 'z' || a[k-1] >= '0' && a[k-1] <= '9') {
		k--
	}
	if k >= 0 && j-1 > k {
		return a[k : j-1]
	}
	return "?"
}

func TestC17(t *testing.T)        { Run(t, "C17", genC17, checkC17) }
func TestReplay_C17(t *testing.T) { Replay(t, "C17", checkC17) }
