package props

import (
	"fmt"
	"sort"
	"strconv"
	"strings"
	"testing"

	"github.com/hashicorp/hcl-lang/lang"
	"github.com/hashicorp/hcl-lang/reference"
	"github.com/hashicorp/hcl-lang/schema"
	"github.com/hashicorp/hcl/v2"
	"github.com/hashicorp/hcl/v2/hclsyntax"
	"github.com/zclconf/go-cty/cty"

	"verif/harness/gen"
	m "verif/harness/model"
	"verif/harness/refmodel"
	"verif/harness/world"
)

// C16Case is a constructed scenario: one block type `res` with dependent bodies
// registered under generated key sets (listed in generated order), and one block
// instance written to select one of them (key attributes written in generated order).
type C16Case struct {
	Block   m.BlockM `json:"block"`
	Target  int      `json:"target"`  // index into Block.Deps the configuration is written for; -1: none
	Labels  []string `json:"labels"`  // label values written
	Written []string `json:"written"` // key attribute lines written, in order ("name = value")
	// key-level part
	// Nested puts the block one level down (outer { res ... { } }): schemas of nested blocks
	// reach the features as copies of the caller's schema
	Nested bool   `json:"nested,omitempty"`
	KeysA  m.DepM `json:"keysA"`
	KeysB  m.DepM `json:"keysB"`
	PermA  []int  `json:"permA"` // permutation applied to KeysA's labels ++ attrs
}

var c16Vals = []cty.Value{cty.StringVal("aws"), cty.StringVal("az"), cty.StringVal("1"), cty.StringVal("true"), cty.NumberIntVal(1), cty.NumberIntVal(2), cty.True, cty.False,
	// numbers that differ below the resolution of a float64, and strings that differ in case / blanks only
	cty.NumberIntVal(90071992547409920), cty.NumberIntVal(90071992547409921), cty.NumberIntVal(-90071992547409921), cty.StringVal("AWS"), cty.StringVal("aws ")}

func c16KeyAttrCons(v cty.Value) m.ConsM {
	return m.ConsM{K: "littype", Ty: m.TyOf(v.Type())}
}

func genC16Keys(g gen.G, nLabels int, attrNames []string) m.DepM {
	d := m.DepM{}
	for i := 0; i < nLabels; i++ {
		d.Labels = append(d.Labels, m.LabelKeyM{Index: i, Value: gen.Pick(g, []string{"aws", "az", "t1"})})
	}
	for _, n := range attrNames {
		if g.Chance(70) {
			if g.Chance(20) {
				d.Attrs = append(d.Attrs, m.AttrKeyM{Name: n, Addr: gen.Pick(g, []string{"var.aws", "var.az", "res.t1.x"})})
			} else {
				v := m.ValOf(gen.Pick(g, c16Vals))
				d.Attrs = append(d.Attrs, m.AttrKeyM{Name: n, Static: &v})
			}
		}
	}
	return d
}

func permuteDep(d m.DepM, perm []int) m.DepM {
	// the permutation indexes labels ++ attrs; each group keeps only its own members, in permuted order
	out := m.DepM{Body: d.Body}
	n := len(d.Labels)
	for _, i := range perm {
		if i < n {
			out.Labels = append(out.Labels, d.Labels[i])
		} else if i-n < len(d.Attrs) {
			out.Attrs = append(out.Attrs, d.Attrs[i-n])
		}
	}
	return out
}

func genC16(g gen.G) C16Case {
	nLabels := g.Int(0, 2)
	attrNames := gen.Subset(g, []string{"k1", "k2", "k3"}, 60)
	if g.Chance(30) {
		attrNames = nil // labels only: the shape that admits a second level
	}
	if nLabels == 0 && len(attrNames) == 0 {
		nLabels = 1
	}
	c := C16Case{Target: -1}
	bl := m.BlockM{Body: &m.BodyM{Attrs: map[string]m.AttrM{
		"plain": {Flag: "optional", Cons: m.ConsM{K: "any", Ty: m.TyOf(cty.String)}},
	}}}
	// a non-key label may stand in front of the key labels: label indexes and positions in the key differ then
	lead := 0
	if nLabels > 0 && g.Chance(25) {
		lead = 1
		bl.Labels = append(bl.Labels, m.LabelM{Name: "lead"})
	}
	for i := 0; i < nLabels; i++ {
		bl.Labels = append(bl.Labels, m.LabelM{Name: fmt.Sprintf("l%d", i), DepKey: true, Completable: true})
	}
	if g.Chance(30) {
		bl.Labels = append(bl.Labels, m.LabelM{Name: "name"}) // a trailing non-key label
	}
	// key attributes: each gets one value type so that literals can be written for it
	attrType := map[string]cty.Value{}
	for _, n := range attrNames {
		v := gen.Pick(g, c16Vals)
		attrType[n] = v
		a := m.AttrM{Flag: "optional", DepKey: true, Cons: m.ConsM{K: "oneof", Elems: []m.ConsM{c16KeyAttrCons(v), {K: "ref", Scope: "var"}}}}
		if g.Chance(25) {
			dv := m.ValOf(sameTypeVal(g, v))
			a.Default = &dv
		}
		bl.Body.Attrs[n] = a
	}
	// dependent bodies under distinct key sets, listed in permuted order
	seen := map[string]bool{}
	nd := g.Int(1, 4)
	for i := 0; i < nd; i++ {
		d := m.DepM{}
		for li := 0; li < nLabels; li++ {
			d.Labels = append(d.Labels, m.LabelKeyM{Index: lead + li, Value: gen.Pick(g, []string{"aws", "az", "t1"})})
		}
		for _, n := range attrNames {
			if g.Chance(75) {
				if g.Chance(15) {
					d.Attrs = append(d.Attrs, m.AttrKeyM{Name: n, Addr: gen.Pick(g, []string{"var.aws", "var.az"})})
				} else {
					v := m.ValOf(sameTypeVal(g, attrType[n]))
					d.Attrs = append(d.Attrs, m.AttrKeyM{Name: n, Static: &v})
				}
			}
		}
		if len(d.Labels) == 0 && len(d.Attrs) == 0 {
			continue
		}
		ks := refmodel.DepKeySet(d).String()
		if seen[ks] {
			continue
		}
		seen[ks] = true
		d.Labels = gen.Perm(g, d.Labels)
		d.Attrs = gen.Perm(g, d.Attrs)
		marker := fmt.Sprintf("marker%d", len(bl.Deps))
		d.Body = m.BodyM{
			Desc:   "dep " + marker,
			Detail: "detail-" + marker,
			Attrs: map[string]m.AttrM{
				marker: {Flag: "optional", Desc: "desc of " + marker, Mods: []string{"m-" + marker},
					Cons: m.ConsM{K: "ref", Scope: "var"},
					Addr: &m.AttrAddrM{Steps: []m.StepM{{K: "static", Name: "mk"}, {K: "attrname"}}, AsReference: true, Scope: "res"}},
			},
		}
		if g.Chance(70) {
			d.Body.DocsLink = &m.LinkM{URL: "https://example.com/" + marker, Tooltip: marker}
		}
		bl.Deps = append(bl.Deps, d)
	}
	// second level: one first-level body (keyed by labels only) declares a key attribute
	// of its own, under whose values further bodies are registered
	second := -1
	if len(attrNames) == 0 && len(bl.Deps) > 0 && g.Chance(50) {
		second = g.Int(0, len(bl.Deps)-1)
		ka := m.AttrM{Flag: "optional", DepKey: true, Cons: m.ConsM{K: "oneof", Elems: []m.ConsM{c16KeyAttrCons(cty.StringVal("")), {K: "ref", Scope: "var"}}}}
		if g.Chance(50) {
			dv := m.ValOf(cty.StringVal(gen.Pick(g, []string{"std", "alt"})))
			ka.Default = &dv
		}
		bl.Deps[second].Body.Attrs["k2nd"] = ka
		for _, val := range gen.Subset(g, []string{"std", "alt", "third"}, 60) {
			sv := m.ValOf(cty.StringVal(val))
			marker := fmt.Sprintf("marker%d", len(bl.Deps))
			d2 := m.DepM{Labels: append([]m.LabelKeyM(nil), bl.Deps[second].Labels...), Attrs: []m.AttrKeyM{{Name: "k2nd", Static: &sv}}}
			d2.Body = m.BodyM{
				Desc: "dep " + marker,
				Attrs: map[string]m.AttrM{
					marker: {Flag: "optional", Desc: "desc of " + marker, Mods: []string{"m-" + marker},
						Cons: m.ConsM{K: "ref", Scope: "var"},
						Addr: &m.AttrAddrM{Steps: []m.StepM{{K: "static", Name: "mk"}, {K: "attrname"}}, AsReference: true, Scope: "res"}},
				},
			}
			if g.Chance(70) {
				d2.Body.DocsLink = &m.LinkM{URL: "https://example.com/" + marker, Tooltip: marker}
			}
			bl.Deps = append(bl.Deps, d2)
		}
	}
	// the schema of a key attribute: declared by the static body or by the first-level body
	keyAttr := func(name string) (m.AttrM, bool) {
		if a, ok := bl.Body.Attrs[name]; ok && a.DepKey {
			return a, true
		}
		if second >= 0 && name == "k2nd" {
			return bl.Deps[second].Body.Attrs["k2nd"], true
		}
		return m.AttrM{}, false
	}
	// choose the dependent body to select and write the block for it
	labels := make([]string, len(bl.Labels))
	for i := range labels {
		labels[i] = gen.Pick(g, []string{"aws", "az", "t1", "other"})
	}
	var lines []string
	if len(bl.Deps) > 0 && g.Chance(85) {
		c.Target = g.Int(0, len(bl.Deps)-1)
		if second >= 0 && g.Chance(50) {
			// prefer the bodies involved in the second level
			c.Target = gen.Pick(g, append([]int{second}, secondLevelIdx(bl, second)...))
		}
		if c.Target == second {
			// the first-level body itself stays in force only while its key attribute
			// contributes no key: unwritten and without default ...
			ka := bl.Deps[second].Body.Attrs["k2nd"]
			if ka.Default != nil {
				if j := secondLevelFor(bl, second, ka.Default.Cty().AsString()); j >= 0 {
					c.Target = j // ... with a default the body registered for it is the one in force
				}
				// (a default nothing is registered for: partially resolved lookup, first level in force)
			}
		}
		d := bl.Deps[c.Target]
		for _, lk := range d.Labels {
			labels[lk.Index] = lk.Value
		}
		keyed := map[string]bool{}
		for _, ak := range d.Attrs {
			keyed[ak.Name] = true
			ks, _ := keyAttr(ak.Name)
			def := ks.Default
			if ak.Static != nil && def != nil && refmodel.DepKeySet(m.DepM{Attrs: []m.AttrKeyM{{Name: ak.Name, Static: def}}}).String() ==
				refmodel.DepKeySet(m.DepM{Attrs: []m.AttrKeyM{ak}}).String() && g.Chance(60) {
				continue // rely on the default value
			}
			if g.Chance(10) {
				// an expression without a static value: no body can be selected for this block
				lines = append(lines, ak.Name+" = "+gen.Pick(g, c16NoStaticValue))
				c.Target = -1
			} else if ak.Static != nil {
				lines = append(lines, ak.Name+" = "+litText(ak.Static.Cty()))
			} else {
				lines = append(lines, ak.Name+" = "+ak.Addr)
			}
		}
		// key attributes the target does not use must not contribute a key: they
		// must be absent and have no default
		for _, n := range attrNames {
			if !keyed[n] {
				a := bl.Body.Attrs[n]
				a.Default = nil
				bl.Body.Attrs[n] = a
			}
		}
		lines = gen.Perm(g, lines)
	} else {
		for _, n := range attrNames {
			if g.Chance(40) {
				if g.Chance(15) {
					lines = append(lines, n+" = "+gen.Pick(g, c16NoStaticValue))
				} else {
					lines = append(lines, n+" = "+litText(gen.Pick(g, c16Vals)))
				}
			}
		}
		if second >= 0 && g.Chance(40) {
			lines = append(lines, "k2nd = "+strconv.Quote(gen.Pick(g, []string{"std", "alt", "third", "none"})))
		}
	}
	c.Block, c.Labels, c.Written = bl, labels, lines
	c.Nested = g.Chance(35)
	// key-level part
	c.KeysA = genC16Keys(g, g.Int(0, 3), gen.Subset(g, []string{"k1", "k2", "k3", "k4"}, 60))
	c.KeysB = genC16Keys(g, g.Int(0, 3), gen.Subset(g, []string{"k1", "k2", "k3", "k4"}, 60))
	if len(c.KeysA.Attrs) > 0 && g.Chance(15) {
		// near misses: the second key set equals the first except for one attribute value that
		// differs only below the resolution of a float64 / only in case / only by a trailing blank
		c.KeysB = m.DepM{Labels: append([]m.LabelKeyM(nil), c.KeysA.Labels...), Attrs: append([]m.AttrKeyM(nil), c.KeysA.Attrs...)}
		i := g.Int(0, len(c.KeysA.Attrs)-1)
		pair := gen.Pick(g, [][2]cty.Value{
			{cty.NumberIntVal(90071992547409920), cty.NumberIntVal(90071992547409921)},
			{cty.MustParseNumberVal("0.12345678901234567891"), cty.MustParseNumberVal("0.12345678901234567892")},
			{cty.NumberIntVal(1), cty.MustParseNumberVal("1.0000000000000000001")},
			{cty.StringVal("aws"), cty.StringVal("AWS")},
			{cty.StringVal("aws"), cty.StringVal("aws ")},
			{cty.StringVal("1"), cty.NumberIntVal(1)},
			{cty.StringVal("true"), cty.True},
		})
		va, vb := m.ValOf(pair[0]), m.ValOf(pair[1])
		c.KeysA.Attrs[i] = m.AttrKeyM{Name: c.KeysA.Attrs[i].Name, Static: &va}
		c.KeysB.Attrs[i] = m.AttrKeyM{Name: c.KeysB.Attrs[i].Name, Static: &vb}
	}
	n := len(c.KeysA.Labels) + len(c.KeysA.Attrs)
	idx := make([]int, n)
	for i := range idx {
		idx[i] = i
	}
	c.PermA = gen.Perm(g, idx)
	return c
}

// secondLevelIdx lists the bodies registered under the first-level body's own key attribute.
func secondLevelIdx(bl m.BlockM, first int) []int {
	var out []int
	for i, d := range bl.Deps {
		if i != first && len(d.Attrs) == 1 && d.Attrs[0].Name == "k2nd" {
			out = append(out, i)
		}
	}
	return out
}

func secondLevelFor(bl m.BlockM, first int, val string) int {
	for _, i := range secondLevelIdx(bl, first) {
		if st := bl.Deps[i].Attrs[0].Static; st != nil && st.Cty().AsString() == val {
			return i
		}
	}
	return -1
}

func sameTypeVal(g gen.G, v cty.Value) cty.Value {
	switch v.Type() {
	case cty.Number:
		return cty.NumberIntVal(int64(g.Int(1, 3)))
	case cty.Bool:
		return cty.BoolVal(g.Bool())
	}
	return cty.StringVal(gen.Pick(g, []string{"aws", "az", "1", "true"}))
}

// expressions that are neither references nor static values
var c16NoStaticValue = []string{`"${var.q}"`, `lower("aws")`, `var.q ? "aws" : "az"`, `"pre-${var.q}"`, `f(var.q)`}

func litText(v cty.Value) string {
	switch v.Type() {
	case cty.Number:
		f := v.AsBigFloat()
		i, _ := f.Int64()
		return strconv.FormatInt(i, 10)
	case cty.Bool:
		if v.True() {
			return "true"
		}
		return "false"
	}
	return strconv.Quote(v.AsString())
}

func (c C16Case) text() (string, int, int) {
	var sb strings.Builder
	sb.WriteString("res")
	for _, l := range c.Labels {
		sb.WriteString(" " + strconv.Quote(l))
	}
	sb.WriteString(" {\n")
	for _, l := range c.Written {
		sb.WriteString("  " + l + "\n")
	}
	blank := sb.Len() + 2
	sb.WriteString("  \n")
	// every marker attribute is written: exactly the selected one is known
	firstMarker := sb.Len()
	for i := range c.Block.Deps {
		sb.WriteString(fmt.Sprintf("  marker%d = var.x%d\n", i, i))
	}
	sb.WriteString("}\n")
	return sb.String(), blank, firstMarker
}

func checkC16(c C16Case) Result {
	var r Result
	// ---------------- key level
	ka, kb := c.KeysA, c.KeysB
	keyA := schema.NewSchemaKey(ka.Keys())
	permuted := permuteDep(ka, c.PermA)
	if len(permuted.Labels) == len(ka.Labels) && len(permuted.Attrs) == len(ka.Attrs) {
		if kp := schema.NewSchemaKey(permuted.Keys()); kp != keyA {
			r.Fail("key-order-dependent", "NewSchemaKey depends on the order of the listed keys:\n %s\n vs\n %s", keyA, kp)
		}
	}
	sameSet := refmodel.DepKeySet(ka).String() == refmodel.DepKeySet(kb).String()
	keyB := schema.NewSchemaKey(kb.Keys())
	if sameSet != (keyA == keyB) {
		r.Fail("key-collision-or-split", "key sets %s and %s: same set = %v but schema keys equal = %v (%s vs %s)", refmodel.DepKeySet(ka), refmodel.DepKeySet(kb), sameSet, keyA == keyB, keyA, keyB)
	}
	if len(ka.Labels)+len(ka.Attrs) >= 2 {
		r.Class("key-set>=2")
	}
	// ---------------- lookup / feature level
	text, blank, _ := c.text()
	root := m.BodyM{Blocks: map[string]m.BlockM{"res": c.Block}}
	if c.Nested {
		root = m.BodyM{Blocks: map[string]m.BlockM{"outer": {Body: &m.BodyM{Blocks: map[string]m.BlockM{"res": c.Block}}}}}
		text = "outer {\n" + text + "}\n"
		blank += len("outer {\n")
	}
	wm := m.WorldM{Paths: []m.PathM{{Path: "p0", Schema: &root, Validators: true, Files: []m.FileM{{Name: "main.tf", Text: text}}}}}
	w, pi := SafeBuild(func() *world.World { return world.Build(wm) })
	if pi != nil {
		r.Exclude("library-panic(C01)")
		return r
	}
	hf := w.Reader.Ctx("p0").Files["main.tf"]
	body := hf.Body.(*hclsyntax.Body)
	if len(body.Blocks) != 1 {
		r.Exclude("harness:unexpected-parse")
		return r
	}
	blk := body.Blocks[0]
	if c.Nested {
		if blk.Body == nil || len(blk.Body.Blocks) != 1 {
			r.Exclude("harness:unexpected-parse")
			return r
		}
		blk = blk.Body.Blocks[0]
		r.Class("nested-block")
	}
	sel := refmodel.Select(c.Block, blk)
	if sel.Unresolvable {
		// a key attribute of the static body has no static value: the lookup cannot succeed,
		// whatever the other keys and the attribute's default are
		sel = refmodel.Selection{Index: -1, Level1: -1, HasKeys: true, Keys: sel.Keys, Unresolvable: true}
		r.Class("key-without-static-value")
	}
	if sel.Undetermined {
		r.Exclude("dontcare:undetermined-selection")
		return r
	}
	// the generator wrote the block for Target; the model's own selection must agree
	if sel.Index != c.Target && c.Target >= 0 {
		// the oracle itself is inconsistent here: never blame the library (counted in the evidence)
		r.Exclude("harness:model-disagrees-with-construction")
		return r
	}
	selected := sel.Index
	d := w.Decoder()
	fail := func(feature, format string, args ...interface{}) {
		r.Fail("feature-disagrees:"+feature, "selected dependent body %d (keys %s): "+format+"\n%s", append([]interface{}{selected, sel.Keys}, append(args, text)...)...)
	}
	markerName := func(i int) string { return fmt.Sprintf("marker%d", i) }
	// completion on the blank line: marker attributes are all written, so use hover/tokens/validation on them
	// and completion for "plain" + absence of unknown markers
	res := Exec(w, d, Call{Kind: "completion", Path: 0, File: "main.tf", Byte: blank})
	if res.Panic == nil && res.Err == nil {
		for _, cd := range res.Val.(lang.Candidates).List {
			if strings.HasPrefix(cd.Label, "marker") {
				fail("completion", "offers already declared %q", cd.Label)
			}
		}
	}
	// validation
	vres := Exec(w, d, Call{Kind: "validateFile", Path: 0, File: "main.tf"})
	unexpected := map[string]bool{}
	if vres.Panic == nil && vres.Err == nil {
		for _, dg := range vres.Val.(hcl.Diagnostics) {
			if dg.Summary == "Unexpected attribute" && dg.Subject != nil {
				for n, a := range blk.Body.Attributes {
					if a.SrcRange.Start.Byte == dg.Subject.Start.Byte {
						unexpected[n] = true
					}
				}
			}
		}
	}
	// tokens
	tres := Exec(w, d, Call{Kind: "tokens", Path: 0, File: "main.tf"})
	tokAt := map[int]lang.SemanticToken{}
	if tres.Panic == nil && tres.Err == nil {
		for _, tk := range tres.Val.([]lang.SemanticToken) {
			tokAt[tk.Range.Start.Byte] = tk
		}
	}
	// targets / origins
	var targets reference.Targets
	if x := Exec(w, d, Call{Kind: "collectTargets", Path: 0}); x.Panic == nil && x.Err == nil {
		targets = x.Val.(reference.Targets)
	}
	var origins reference.Origins
	if x := Exec(w, d, Call{Kind: "collectOrigins", Path: 0}); x.Panic == nil && x.Err == nil {
		origins = x.Val.(reference.Origins)
	}
	fullyResolved := selected >= 0 && sel.Resolved
	for i := range c.Block.Deps {
		name := markerName(i)
		a := blk.Body.Attributes[name]
		if a == nil {
			continue
		}
		known := i == selected
		// hover on the attribute name
		hres := Exec(w, d, Call{Kind: "hover", Path: 0, File: "main.tf", Byte: a.NameRange.Start.Byte + 1})
		gotHover := hres.Panic == nil && hres.Err == nil && hres.Val.(*lang.HoverData) != nil
		if known != gotHover {
			fail("hover", "hover on %q: known=%v but hover data returned=%v (err %v)", name, known, gotHover, hres.Err)
		} else if known && !strings.Contains(hres.Val.(*lang.HoverData).Content.Value, "desc of "+name) {
			fail("hover", "hover on %q lacks its description: %q", name, hres.Val.(*lang.HoverData).Content.Value)
		}
		// semantic token on the attribute name, with the attribute's modifier
		tk, hasTok := tokAt[a.NameRange.Start.Byte]
		if known != hasTok {
			fail("tokens", "token on %q: known=%v but token present=%v", name, known, hasTok)
		} else if known {
			found := false
			for _, md := range tk.Modifiers {
				if string(md) == "m-"+name {
					found = true
				}
			}
			if !found {
				fail("tokens", "token on %q lacks modifier m-%s: %v", name, name, tk.Modifiers)
			}
		}
		// validation: exactly the markers of bodies not in force are unexpected (when the lookup fully resolved)
		if fullyResolved || !sel.HasKeys {
			if unexpected[name] == known {
				fail("validation", "attribute %q: known=%v but reported unexpected=%v", name, known, unexpected[name])
			}
		} else if unexpected[name] {
			fail("validation", "attribute %q reported unexpected although the dependent body could not be resolved", name)
		}
		// reference target mk.<marker> and origin var.x<i> are collected iff the body is in force
		hasTarget := false
		for _, tg := range targets {
			if tg.Addr.String() == "mk."+name {
				hasTarget = true
			}
		}
		if known != hasTarget {
			fail("targets", "target mk.%s: known=%v collected=%v", name, known, hasTarget)
		}
		hasOrigin := false
		for _, og := range origins {
			if lo, ok := og.(reference.LocalOrigin); ok && lo.Addr.String() == fmt.Sprintf("var.x%d", i) {
				hasOrigin = true
			}
		}
		if known != hasOrigin {
			fail("origins", "origin var.x%d inside %q: known=%v collected=%v", i, name, known, hasOrigin)
		}
	}
	// documentation links: exactly on the labels / attribute values that selected a body having a link
	lres := Exec(w, d, Call{Kind: "links", Path: 0, File: "main.tf"})
	// (LinksInFile only looks at top-level blocks - "currently only block bodies have links
	// associated" - so a nested block is not judged on links)
	if lres.Panic == nil && lres.Err == nil && !c.Nested {
		var got, want []string
		for _, l := range lres.Val.([]lang.Link) {
			got = append(got, fmt.Sprintf("%s@%d-%d", l.URI, l.Range.Start.Byte, l.Range.End.Byte))
		}
		if selected >= 0 && c.Block.Deps[selected].Body.DocsLink != nil {
			url := c.Block.Deps[selected].Body.DocsLink.URL
			for _, kp := range sel.Keys {
				switch kp.Kind {
				case "label":
					i, _ := strconv.Atoi(kp.Name)
					lr := blk.LabelRanges[i]
					want = append(want, fmt.Sprintf("%s@%d-%d", url, lr.Start.Byte, lr.End.Byte))
				case "attr":
					if a, ok := blk.Body.Attributes[kp.Name]; ok {
						er := a.Expr.Range()
						want = append(want, fmt.Sprintf("%s@%d-%d", url, er.Start.Byte, er.End.Byte))
					}
				}
			}
		}
		sort.Strings(got)
		sort.Strings(want)
		if strings.Join(got, " ") != strings.Join(want, " ") {
			fail("links", "links %v, expected %v", got, want)
		}
		if len(want) > 0 {
			r.Class("links")
		}
	}
	r.Evals = 1 + 5*len(c.Block.Deps)
	switch {
	case selected < 0 && sel.HasKeys:
		r.Class("lookup-failed")
	case selected < 0:
		r.Class("no-keys")
	default:
		r.Class("selected")
		if sel.Level1 != sel.Index {
			r.Class("second-level-selected")
			if _, written := blk.Body.Attributes["k2nd"]; !written {
				r.Class("second-level-by-default")
			}
		}
		if sel.HasKeys && !sel.Resolved {
			r.Class("second-level-lookup-failed(first level in force)")
		}
		if len(c.Block.Deps[selected].Attrs) > 0 {
			r.Class("keyed-by-attribute")
		}
		if len(c.Block.Deps[selected].Labels) > 0 && len(c.Block.Deps[selected].Attrs) > 0 {
			r.Class("keyed-by-label+attribute")
		}
	}
	r.NonTrivial = selected >= 0 && len(sel.Keys) >= 2 || len(ka.Labels)+len(ka.Attrs) >= 2
	return r
}

func TestC16(t *testing.T)        { Run(t, "C16", genC16, checkC16) }
func TestReplay_C16(t *testing.T) { Replay(t, "C16", checkC16) }
