package props

import (
	"fmt"

	"github.com/zclconf/go-cty/cty"

	m "verif/harness/model"
)

// LimitM describes a constructed candidate population around the limit of 100:
// the generator knows exactly how many candidates match, which gives an exact
// oracle for the "never more than 100 / complete only if nothing was left out" clause.
type LimitM struct {
	Kind   string `json:"kind"` // body-attrs|body-blocks|labels|funcs|object-attrs|targets|hooks
	N      int    `json:"n"`
	Prefix string `json:"prefix"`          // typed prefix ("" or a prefix of the generated names)
	Ext    bool   `json:"ext,omitempty"`   // body kinds: count and for_each extensions enabled (two more candidates)
	Hooks  int    `json:"hooks,omitempty"` // hooks+funcs, hooks+targets: number of candidates the completion hook returns
}

var limitKinds = []string{"body-attrs", "body-blocks", "labels", "funcs", "object-attrs", "targets", "hooks", "hooks+funcs", "hooks+targets"}

func limitName(i int) string { return fmt.Sprintf("n%03d", i) }

// limitWorld builds the world, the cursor and the expected number of matching candidates.
func limitWorld(l LimitM) (w m.WorldM, file string, cursor int, population int, hooks bool) {
	str := m.ConsM{K: "any", Ty: m.TyOf(cty.String)}
	root := m.BodyM{}
	p := m.PathM{Path: "p0"}
	text := ""
	match := 0
	for i := 0; i < l.N; i++ {
		if len(limitName(i)) >= len(l.Prefix) && limitName(i)[:len(l.Prefix)] == l.Prefix {
			match++
		}
	}
	population = match
	switch l.Kind {
	case "body-attrs":
		root.Attrs = map[string]m.AttrM{}
		for i := 0; i < l.N; i++ {
			root.Attrs[limitName(i)] = m.AttrM{Flag: "optional", Cons: str}
		}
		text = l.Prefix
		cursor = len(text)
	case "body-blocks":
		root.Blocks = map[string]m.BlockM{}
		for i := 0; i < l.N; i++ {
			root.Blocks[limitName(i)] = m.BlockM{Body: &m.BodyM{}}
		}
		text = l.Prefix
		cursor = len(text)
	case "labels":
		bl := m.BlockM{Labels: []m.LabelM{{Name: "type", DepKey: true, Completable: true}}, Body: &m.BodyM{}}
		for i := 0; i < l.N; i++ {
			bl.Deps = append(bl.Deps, m.DepM{Labels: []m.LabelKeyM{{Index: 0, Value: limitName(i)}}, Body: m.BodyM{}})
		}
		root.Blocks = map[string]m.BlockM{"res": bl}
		text = `res "` + l.Prefix + `" {` + "\n}\n"
		cursor = len(`res "`) + len(l.Prefix)
	case "funcs", "hooks+funcs":
		root.Attrs = map[string]m.AttrM{"x": {Flag: "optional", Cons: str}}
		p.Funcs = map[string]m.FuncM{}
		for i := 0; i < l.N; i++ {
			p.Funcs[limitName(i)] = m.FuncM{Ret: m.TyOf(cty.String)}
		}
		text = "x = " + l.Prefix
		cursor = len(text)
		text += "\n"
	case "object-attrs":
		obj := m.ConsM{K: "object", Attrs: map[string]m.AttrM{}}
		for i := 0; i < l.N; i++ {
			obj.Attrs[limitName(i)] = m.AttrM{Flag: "optional", Cons: str}
		}
		root.Attrs = map[string]m.AttrM{"o": {Flag: "optional", Cons: obj}}
		text = "o = {\n  " + l.Prefix
		cursor = len(text)
		text += "\n}\n"
	case "targets", "hooks+targets":
		root.Attrs = map[string]m.AttrM{"x": {Flag: "optional", Cons: m.ConsM{K: "ref", Scope: "var"}}}
		root.Blocks = map[string]m.BlockM{"var": {
			Labels: []m.LabelM{{Name: "name"}}, Body: &m.BodyM{},
			Addr: &m.BlockAddrM{Steps: []m.StepM{{K: "static", Name: "var"}, {K: "label", Index: 0}}, Scope: "var", AsReference: true},
		}}
		decl := ""
		for i := 0; i < l.N; i++ {
			decl += fmt.Sprintf("var %q {\n}\n", limitName(i))
		}
		p.Files = append(p.Files, m.FileM{Name: "b.tf", Text: decl})
		pre := ""
		if l.Prefix != "" {
			pre = "var." + l.Prefix
		}
		text = "x = " + pre
		cursor = len(text)
		text += "\n"
		if l.Prefix == "" {
			population = l.N
		}
	case "hooks":
		hooks = true
		root.Attrs = map[string]m.AttrM{"x": {Flag: "optional", Cons: str, Hooks: []string{"hn"}}}
		text = "x = "
		cursor = len(text)
		text += "\n"
		population = l.N
	}
	if l.Kind == "hooks+funcs" || l.Kind == "hooks+targets" {
		// two sources feed one list: the hook's candidates and the constraint's own
		hooks = true
		population += l.Hooks
		a := root.Attrs["x"]
		a.Hooks = []string{"hn"}
		if l.Kind == "hooks+targets" {
			a.Cons = m.ConsM{K: "any", Ty: m.TyOf(cty.String)}
		}
		root.Attrs["x"] = a
	}
	if l.Ext && (l.Kind == "body-attrs" || l.Kind == "body-blocks") {
		root.Ext = &m.ExtM{Count: true, ForEach: true}
		if l.Prefix == "" {
			population += 2
		}
	}
	p.Schema = &root
	p.Files = append([]m.FileM{{Name: "main.tf", Text: text}}, p.Files...)
	w = m.WorldM{Paths: []m.PathM{p}}
	if l.Kind == "hooks" {
		w.Ctx.Hooks = map[string]m.HookM{"hn": {N: l.N}}
	}
	if l.Kind == "hooks+funcs" || l.Kind == "hooks+targets" {
		w.Ctx.Hooks = map[string]m.HookM{"hn": {N: l.Hooks}}
	}
	return w, "main.tf", cursor, population, hooks
}
