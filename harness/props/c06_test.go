package props

import (
	"sort"
	"strings"
	"testing"

	"github.com/hashicorp/hcl-lang/lang"
	"github.com/hashicorp/hcl/v2"
	"github.com/hashicorp/hcl/v2/hclsyntax"
	"github.com/zclconf/go-cty/cty"

	"verif/harness/gen"
	m "verif/harness/model"
	"verif/harness/oracle"
	"verif/harness/refmodel"
	"verif/harness/world"
)

type C06Case struct {
	World m.WorldM `json:"world"`
	Limit *LimitM  `json:"limit,omitempty"` // constructed population around the limit (World unused)
}

func genC06(g gen.G) C06Case {
	if g.Chance(30) {
		l := LimitM{Kind: gen.Pick(g, limitKinds), N: gen.Pick(g, []int{97, 99, 100, 101, 102, 103, 130, 1, 0, 250})}
		if strings.HasPrefix(l.Kind, "hooks+") {
			l.Hooks = gen.Pick(g, []int{1, 3, 40, 60, 99, 100, 130})
			l.N = gen.Pick(g, []int{0, 1, 41, 61, 97, 99, 100, 101, 130})
		} else if l.Kind != "hooks" && g.Chance(40) {
			l.Prefix = gen.Pick(g, []string{"n", "n0", "n1", "n09", "n10", "x"})
		}
		l.Ext = g.Chance(40)
		return C06Case{Limit: &l}
	}
	if g.Chance(20) {
		// a world in which references resolve: reference candidates exist at most value positions
		return C06Case{World: g.RefWorld(1, false)}
	}
	if g.Chance(15) {
		// value-centred world: nested values with literal and non-literal keys, resolving references, functions
		return C06Case{World: g.ValueWorld(gen.CfgOpts{Typed: g.Bool(), Layout: g.Chance(30), HalfTyped: 6})}
	}
	o := gen.WorldOpts{
		Schema:   gen.SchemaOpts{MaxDepth: 2},
		Cfg:      gen.CfgOpts{Violations: 6, Layout: true, HalfTyped: 10},
		MaxPaths: 1, MaxFiles: 2, Edits: 2,
	}
	if g.Chance(35) {
		o.Edits = 0
	}
	if g.Chance(30) {
		o.Schema.HookPct = 40
	}
	if g.Chance(25) {
		// population stress: candidate lists below, at and above the limit of 100
		o.Schema.Huge = true
		o.Schema.MaxDepth = 1
	}
	return C06Case{World: g.World(o)}
}

const maxCandidates = 100

// registeredStringHook reports whether the attribute has a hook that the decoder
// context registers and that can run (hooks only run for string-typed constraints).
func registeredStringHook(a m.AttrM, ctx m.CtxM) bool {
	if len(a.Hooks) == 0 {
		return false
	}
	c := a.Cons.Build()
	ta, ok := c.(interface{ ConstraintType() (cty.Type, bool) })
	if !ok {
		return false
	}
	t, ok := ta.ConstraintType()
	if !ok || t != cty.String {
		return false
	}
	for _, h := range a.Hooks {
		if _, ok := ctx.Hooks[h]; ok {
			return true
		}
	}
	return false
}

type c06Checker struct {
	r     *Result
	w     *world.World
	wm    m.WorldM
	stats struct{ lists, cands, atLimit, probes, hookLists int }
}

func blanksOnly(b []byte) bool {
	for _, c := range b {
		if c != ' ' && c != '\t' {
			return false
		}
	}
	return true
}

func (cc *c06Checker) checkList(cl Call, src []byte, fi *fileInfo, cands lang.Candidates) {
	cc.stats.lists++
	if len(cands.List) > maxCandidates {
		cc.r.Fail("limit-exceeded", "%s returned %d candidates (limit %d)", cl, len(cands.List), maxCandidates)
	}
	for i, c := range cands.List {
		cc.stats.cands++
		cc.checkEdit(cl, src, fi, i, c.Kind, "TextEdit", c.TextEdit, c)
		for j, ate := range c.AdditionalTextEdits {
			_ = j
			if ate.Range.Filename != cl.File {
				cc.r.Fail("edit-file:additional", "%s candidate %d (%s): additional edit for file %q", cl, i, c.Label, ate.Range.Filename)
			}
		}
	}
}

func (cc *c06Checker) checkEdit(cl Call, src []byte, fi *fileInfo, i int, kind lang.CandidateKind, what string, te lang.TextEdit, c lang.Candidate) {
	rng := te.Range
	tag := kind.String()
	if rng.Filename != cl.File {
		cc.r.Fail("edit-file:"+tag, "%s candidate %d (%s): edit is for file %q", cl, i, c.Label, rng.Filename)
		return
	}
	upstream := len(fi.tainted) > 0 && (fi.inTaint(rng.Start.Byte) || fi.inTaint(rng.End.Byte) || fi.inTaint(cl.Byte))
	if rng.Start.Byte < 0 || rng.End.Byte > len(src) || rng.Start.Byte > rng.End.Byte {
		if upstream {
			cc.r.Exclude("upstream-range")
			return
		}
		cc.r.Fail("edit-range-malformed:"+tag, "%s candidate %d (%s): edit range %d-%d is malformed (file length %d)", cl, i, c.Label, rng.Start.Byte, rng.End.Byte, len(src))
		return
	}
	if rng.Start.Byte > cl.Byte {
		if upstream {
			cc.r.Exclude("upstream-range")
		} else {
			cc.r.Fail("edit-starts-after-cursor:"+tag, "%s candidate %d (%s): edit range %d-%d starts after the cursor", cl, i, c.Label, rng.Start.Byte, rng.End.Byte)
		}
	}
	if rng.End.Byte < cl.Byte && !blanksOnly(src[rng.End.Byte:cl.Byte]) {
		if upstream {
			cc.r.Exclude("upstream-range")
		} else {
			cc.r.Fail("edit-misses-cursor:"+tag, "%s candidate %d (%s): edit range %d-%d does not reach the cursor (%q lies between)", cl, i, c.Label, rng.Start.Byte, rng.End.Byte, src[rng.End.Byte:cl.Byte])
		}
	}
	// hook-provided text is caller content: not snippet-checked
	if c.Detail == "hook" {
		return
	}
	if oracle.HasTabStopSyntax(te.NewText) {
		cc.r.Fail("newtext-tabstop:"+tag, "%s candidate %d (%s): plain text contains tab-stop syntax: %q", cl, i, c.Label, te.NewText)
	}
	if err := oracle.CheckTabStops(te.Snippet); err != nil {
		cc.r.Fail("snippet-tabstops:"+tag, "%s candidate %d (%s): %s in snippet %q", cl, i, c.Label, err, te.Snippet)
	}
}

// probeLeftOut: a list at the limit that claims to be complete must contain
// every candidate offered after one more character is typed at the cursor.
func identByte(b byte) bool {
	return b == '_' || b == '-' || b >= '0' && b <= '9' || b >= 'a' && b <= 'z' || b >= 'A' && b <= 'Z' || b >= 0x80
}

// declaredItems lists every attribute name and block type the parser recovered from the file.
func declaredItems(w *world.World, cl Call) string {
	pc := w.Reader.Ctx(w.M.Paths[cl.Path].Path)
	if pc == nil || pc.Files[cl.File] == nil {
		return ""
	}
	body, ok := pc.Files[cl.File].Body.(*hclsyntax.Body)
	if !ok {
		return ""
	}
	var out []string
	var walk func(b *hclsyntax.Body, prefix string)
	walk = func(b *hclsyntax.Body, prefix string) {
		for n := range b.Attributes {
			out = append(out, prefix+"/"+n)
		}
		for _, blk := range b.Blocks {
			out = append(out, prefix+"/"+blk.Type+"{}")
			if blk.Body != nil {
				walk(blk.Body, prefix+"/"+blk.Type)
			}
		}
	}
	walk(body, "")
	sort.Strings(out)
	return strings.Join(out, " ")
}

// parseErrorNear reports whether a parse error touches the top-level item holding the cursor
// (what the parser recovers there - and so where the cursor "is" - is not decided then).
func parseErrorNear(hf *hcl.File, off int) bool {
	_, diags := hclsyntax.ParseConfig(hf.Bytes, "x.tf", hcl.InitialPos)
	if !diags.HasErrors() {
		return false
	}
	body, ok := hf.Body.(*hclsyntax.Body)
	if !ok {
		return true
	}
	lo, hi := 0, len(hf.Bytes)
	found := false
	for _, a := range body.Attributes {
		if r := a.Range(); off >= r.Start.Byte && off <= r.End.Byte {
			lo, hi, found = r.Start.Byte, r.End.Byte, true
		}
	}
	for _, b := range body.Blocks {
		if r := b.Range(); off >= r.Start.Byte && off <= r.End.Byte {
			lo, hi, found = r.Start.Byte, r.End.Byte, true
		}
	}
	if !found {
		return true
	}
	for _, d := range diags {
		if d.Subject == nil || (d.Subject.Start.Byte <= hi && d.Subject.End.Byte >= lo) {
			return true
		}
	}
	return false
}

// placeKind classifies the cursor on the parser's AST (attrName, attrValue, bodyWhitespace ...).
func placeKind(w *world.World, cl Call) string {
	pm := w.M.Paths[cl.Path]
	pc := w.Reader.Ctx(pm.Path)
	if pc == nil || pc.Files[cl.File] == nil || pm.Schema == nil {
		return "?"
	}
	body, ok := pc.Files[cl.File].Body.(*hclsyntax.Body)
	if !ok {
		return "?"
	}
	loc := refmodel.Locate(pm.Schema, body, cl.Byte)
	if loc.Kind == "attrValue" && loc.Attr != nil {
		return "attrValue:" + loc.Attr.Name
	}
	return loc.Kind
}

func (cc *c06Checker) probeLeftOut(cl Call, text string, cands lang.Candidates) {
	// typing next to an existing identifier would change that identifier (and so
	// what is declared); only probe where the new character stands alone
	if cl.Byte > 0 && identByte(text[cl.Byte-1]) || cl.Byte < len(text) && identByte(text[cl.Byte]) {
		return
	}
	// the rest of the line must be blank: typing in front of an existing item
	// changes how that item parses
	for i := cl.Byte; i < len(text) && text[i] != '\n'; i++ {
		if text[i] != ' ' && text[i] != '\t' && text[i] != '\r' {
			return
		}
	}
	have := map[string]bool{}
	for _, c := range cands.List {
		have[c.Label] = true
	}
	for _, ch := range "abcdefghijklmnopqrstuvwxyz_0123456789" {
		cc.stats.probes++
		wm := cloneWorld(cc.wm)
		for fi := range wm.Paths[cl.Path].Files {
			if wm.Paths[cl.Path].Files[fi].Name == cl.File {
				wm.Paths[cl.Path].Files[fi].Text = text[:cl.Byte] + string(ch) + text[cl.Byte:]
			}
		}
		w2, pi := SafeBuild(func() *world.World { return world.Build(wm) })
		if pi != nil {
			continue
		}
		// the typed character must not change what the parser recovers as declared
		// (an unfinished item further down may swallow its neighbours once the line above changes)
		if declaredItems(cc.w, cl) != declaredItems(w2, cl) {
			continue
		}
		// ... nor what kind of place the cursor is in: behind a half-typed operator (`a = c ? 1 : `)
		// the parser keeps only `c` as the value, so the cursor is in the body; one more character
		// completes the conditional and puts the cursor inside a value
		c2 := cl
		c2.Byte++
		if k1, k2 := placeKind(cc.w, cl), placeKind(w2, c2); !(k1 == k2 || (k1 == "bodyWhitespace" && (k2 == "attrName" || k2 == "blockType"))) {
			continue
		}
		res := Exec(w2, w2.Decoder(), c2)
		if res.Panic != nil || res.Err != nil {
			continue
		}
		l2, ok := res.Val.(lang.Candidates)
		if !ok {
			continue
		}
		// a candidate that does not start with the typed character shows that the character did not
		// become the prefix of what is being completed (error recovery re-read the surroundings: the
		// cursor is now in another expression): the two lists are not comparable at all
		changed := false
		for _, c := range l2.List {
			if !strings.HasPrefix(strings.TrimLeft(c.Label, `"`), string(ch)) {
				changed = true
			}
		}
		if changed {
			continue
		}
		for _, c := range l2.List {
			if !have[c.Label] {
				cc.r.Fail("complete-but-left-out:"+c.Kind.String(), "%s returned %d candidates marked complete, but after typing %q the candidate %q appears which the complete list did not contain", cl, len(cands.List), string(ch), c.Label)
				return
			}
		}
	}
}

func checkC06Limit(l LimitM) Result {
	var r Result
	wm, file, cursor, population, hooks := limitWorld(l)
	w, pi := SafeBuild(func() *world.World { return world.Build(wm) })
	if pi != nil {
		r.Exclude("library-panic(C01)")
		return r
	}
	cc := &c06Checker{r: &r, w: w, wm: wm}
	pc := w.Reader.Ctx("p0")
	fi := analyseFile(file, pc.Files[file])
	src := pc.Files[file].Bytes
	for _, prefill := range []bool{false, true} {
		cl := Call{Kind: "completion", Path: 0, File: file, Byte: cursor, Prefill: prefill}
		res := Exec(w, w.Decoder(), cl)
		if res.Panic != nil {
			r.Exclude("library-panic(C01)")
			return r
		}
		if res.Err != nil {
			r.Fail("limit-error:"+l.Kind, "%s on constructed population %+v returned error %v", cl, l, res.Err)
			return r
		}
		cands := res.Val.(lang.Candidates)
		cc.checkList(cl, src, fi, cands)
		n := len(cands.List)
		switch {
		case n > maxCandidates:
			// reported by checkList
		case population > maxCandidates && cands.IsComplete:
			r.Fail("complete-but-left-out:"+l.Kind, "%s: %d candidates match (%+v) but the list of %d is marked complete", cl, population, l, n)
		case cands.IsComplete && n < population:
			r.Fail("complete-but-left-out:"+l.Kind, "%s: %d candidates match (%+v) but the complete list has only %d", cl, population, l, n)
		case cands.IsComplete && hooks:
			r.Fail("complete-with-hooks", "%s: list marked complete although the attribute has a completion hook (%+v)", cl, l)
		}
	}
	r.Evals = 2
	r.Class("constructed-population:" + l.Kind)
	switch {
	case population > maxCandidates:
		r.Class("population>limit")
	case population == maxCandidates:
		r.Class("population=limit")
	default:
		r.Class("population<limit")
	}
	r.NonTrivial = population >= 97
	return r
}

func checkC06(c C06Case) Result {
	if c.Limit != nil {
		return checkC06Limit(*c.Limit)
	}
	var r Result
	w, pi := SafeBuild(func() *world.World { return world.Build(c.World) })
	if pi != nil {
		r.Exclude("library-panic(C01)")
		return r
	}
	cc := &c06Checker{r: &r, w: w, wm: c.World}
	d := w.Decoder()
	nonEmptyLists, withPrefix := 0, 0
	for pi, p := range c.World.Paths {
		pc := w.Reader.Ctx(p.Path)
		for _, f := range p.Files {
			hf := pc.Files[f.Name]
			if hf == nil {
				continue
			}
			fi := analyseFile(f.Name, hf)
			body, _ := hf.Body.(*hclsyntax.Body)
			src := []byte(f.Text)
			for _, off := range BoundaryOffsets(src, 300) {
				for _, prefill := range []bool{false, true} {
					cl := Call{Kind: "completion", Path: pi, File: f.Name, Byte: off, Prefill: prefill}
					res := Exec(w, d, cl)
					if res.Panic != nil {
						r.Exclude("library-panic(C01)")
						continue
					}
					if res.Err != nil {
						continue
					}
					cands := res.Val.(lang.Candidates)
					cc.checkList(cl, src, fi, cands)
					if len(cands.List) > 0 {
						nonEmptyLists++
						if off > 0 && src[off-1] != '\n' && src[off-1] != ' ' {
							withPrefix++
						}
					}
					if len(cands.List) >= maxCandidates {
						cc.stats.atLimit++
						if cands.IsComplete && !prefill {
							cc.probeLeftOut(cl, f.Text, cands)
						}
					}
					// hooks: a list for an attribute value with a runnable hook is never complete
					if cands.IsComplete && body != nil && p.Schema != nil && len(cands.List) > 0 {
						loc := refmodel.Locate(p.Schema, body, off)
						if loc.Kind == "attrValue" && loc.BC != nil && loc.BC.Schema != nil && !loc.BC.Undetermined {
							if a, ok := loc.BC.Schema.Attrs[loc.Attr.Name]; ok && registeredStringHook(a, c.World.Ctx) &&
								!(loc.BC.Schema.Ext != nil && (loc.Attr.Name == "count" || loc.Attr.Name == "for_each")) &&
								off >= loc.Attr.Expr.Range().Start.Byte && !parseErrorNear(hf, off) {
								cc.stats.hookLists++
								r.Fail("complete-with-hooks", "%s: list marked complete although attribute %q has completion hooks that may add more", cl, loc.Attr.Name)
							}
						}
					}
					if len(r.Failures) > 6 {
						return r
					}
				}
			}
		}
	}
	r.Evals = cc.stats.cands
	if r.Evals == 0 {
		r.Evals = 1
	}
	if cc.stats.atLimit > 0 {
		r.Class("list-at-limit")
	}
	if cc.stats.probes > 0 {
		r.Class("left-out-probe")
	}
	if withPrefix > 0 {
		r.Class("with-typed-prefix")
	}
	r.NonTrivial = withPrefix > 0 || cc.stats.atLimit > 0
	return r
}

var _ = hcl.Pos{}

func TestC06(t *testing.T)        { Run(t, "C06", genC06, checkC06) }
func TestReplay_C06(t *testing.T) { Replay(t, "C06", checkC06) }
