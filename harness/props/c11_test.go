package props

import (
	"fmt"
	"strings"
	"testing"

	"github.com/hashicorp/hcl-lang/decoder"
	"github.com/hashicorp/hcl-lang/lang"
	"github.com/hashicorp/hcl-lang/reference"
	"github.com/hashicorp/hcl/v2"
	"github.com/zclconf/go-cty/cty"
	"github.com/zclconf/go-cty/cty/convert"

	"verif/harness/gen"
	m "verif/harness/model"
	"verif/harness/world"
)

type C11Case struct {
	World m.WorldM `json:"world"`
}

func genC11(g gen.G) C11Case {
	return C11Case{World: g.RefWorld(g.Int(1, 3), false)}
}

func addrEq(a, b lang.Address) bool {
	if len(a) == 0 || len(a) != len(b) {
		return false
	}
	for i := range a {
		if a[i].String() != b[i].String() {
			return false
		}
	}
	return true
}

func addrPrefix(prefix, a lang.Address) bool {
	if len(prefix) == 0 || len(prefix) > len(a) {
		return false
	}
	for i := range prefix {
		if prefix[i].String() != a[i].String() {
			return false
		}
	}
	return true
}

func rangeInside(inner, outer hcl.Range) bool {
	return inner.Filename == outer.Filename && inner.Start.Byte >= outer.Start.Byte && inner.End.Byte <= outer.End.Byte
}

func flattenTargets(ts reference.Targets, out *[]reference.Target, depth int) {
	for _, t := range ts {
		*out = append(*out, t)
		if depth < 10 {
			flattenTargets(t.NestedTargets, out, depth+1)
		}
	}
}

type originInfo struct {
	addr       lang.Address
	rng        hcl.Range
	cons       reference.OriginConstraints
	targetPath string
	direct     bool
}

func originInfoOf(o reference.Origin, ownPath string) originInfo {
	switch x := o.(type) {
	case reference.LocalOrigin:
		return originInfo{addr: x.Addr, rng: x.Range, cons: x.Constraints, targetPath: ownPath}
	case reference.PathOrigin:
		return originInfo{addr: x.TargetAddr, rng: x.Range, cons: x.Constraints, targetPath: x.TargetPath.Path}
	case reference.DirectOrigin:
		return originInfo{rng: x.Range, targetPath: x.TargetPath.Path, direct: true}
	}
	return originInfo{}
}

// necessary: relation between a reported declaration and the origin that any sound resolution must satisfy.
func necessaryMatch(t reference.Target, o originInfo, local bool) (bool, string) {
	abs := addrEq(t.Addr, o.addr) || (t.Type == cty.DynamicPseudoType && addrPrefix(t.Addr, o.addr))
	loc := false
	if local && len(t.LocalAddr) > 0 && (addrEq(t.LocalAddr, o.addr) || (t.Type == cty.DynamicPseudoType && addrPrefix(t.LocalAddr, o.addr))) {
		// block-local names resolve only inside the block that declares them
		if t.TargetableFromRangePtr == nil || rangeInside(o.rng, *t.TargetableFromRangePtr) {
			loc = true
		} else {
			return false, "block-local declaration outside of the block the reference is written in"
		}
	}
	if !abs && !loc {
		return false, "address of the declaration does not denote the reference's address"
	}
	if loc && !abs && t.LocalAddr[0].String() == "self" && len(t.Addr) >= len(t.LocalAddr)-1 {
		// self.<rest> stands for <enclosing block>.<rest>: the declaration reached through its
		// self.* name must be the one whose absolute address ends in the same steps
		k := len(t.LocalAddr) - 1
		for i := 0; i < k; i++ {
			if t.Addr[len(t.Addr)-k+i].String() != t.LocalAddr[1+i].String() {
				return false, "the declaration reached through its self.* name has an absolute address that names another element (" + t.Addr.String() + " vs " + t.LocalAddr.String() + ")"
			}
		}
	}
	if len(o.cons) == 0 {
		return true, ""
	}
	for _, c := range o.cons {
		if c.OfScopeId != "" && c.OfScopeId != t.ScopeId {
			continue
		}
		if c.OfType != cty.NilType && t.Type != cty.NilType && t.Type != cty.DynamicPseudoType {
			if _, err := convert.Convert(cty.UnknownVal(t.Type), c.OfType); err != nil {
				if !(c.OfType.IsTupleType() && t.Type.IsTupleType()) {
					continue
				}
			}
		}
		if (c.OfType == cty.NilType) != (t.Type == cty.NilType) && t.Type != cty.DynamicPseudoType {
			continue // type-less constraints match type-less declarations and vice versa
		}
		return true, ""
	}
	return false, "declaration satisfies none of the reference's scope/type constraints"
}

// sufficient: a declaration that any complete resolution must report.
func sufficientMatch(t reference.Target, o originInfo) bool {
	if t.RangePtr == nil || !addrEq(t.Addr, o.addr) || len(o.cons) == 0 {
		return false
	}
	for _, c := range o.cons {
		if c.OfScopeId != "" && c.OfScopeId != t.ScopeId {
			continue
		}
		switch {
		case c.OfType == cty.NilType && t.Type == cty.NilType:
			return true
		case c.OfType != cty.NilType && t.Type != cty.NilType:
			if t.Type == cty.DynamicPseudoType {
				return true
			}
			if _, err := convert.Convert(cty.UnknownVal(t.Type), c.OfType); err == nil {
				return true
			}
		}
	}
	return false
}

func rtKey(path string, r hcl.Range) string {
	return fmt.Sprintf("%s|%s|%d-%d", path, r.Filename, r.Start.Byte, r.End.Byte)
}

func checkC11(c C11Case) Result {
	var r Result
	w, pi := SafeBuild(func() *world.World { return world.Build(c.World) })
	if pi != nil {
		r.Exclude("library-panic(C01)")
		return r
	}
	d := w.Decoder()
	flat := map[string][]reference.Target{}
	for _, p := range c.World.Paths {
		var out []reference.Target
		flattenTargets(w.Reader.Ctx(p.Path).ReferenceTargets, &out, 0)
		flat[p.Path] = out
	}
	pathIdx := map[string]int{}
	for i, p := range c.World.Paths {
		pathIdx[p.Path] = i
	}
	resolved := 0
	for pi, p := range c.World.Paths {
		pc := w.Reader.Ctx(p.Path)
		groups := map[string][]originInfo{}
		var order []string
		for _, og := range pc.ReferenceOrigins {
			oi := originInfoOf(og, p.Path)
			k := rtKey(p.Path, oi.rng)
			if _, ok := groups[k]; !ok {
				order = append(order, k)
			}
			groups[k] = append(groups[k], oi)
		}
		for _, gk := range order {
			group := groups[gk]
			o := group[0]
			positions := []int{o.rng.Start.Byte}
			if o.rng.End.Byte-o.rng.Start.Byte > 2 {
				positions = append(positions, (o.rng.Start.Byte+o.rng.End.Byte)/2, o.rng.End.Byte-1)
			}
			for _, pos := range positions {
				cl := Call{Kind: "gotoDef", Path: pi, File: o.rng.Filename, Byte: pos}
				res := Exec(w, d, cl)
				if res.Panic != nil {
					r.Exclude("library-panic(C01)")
					continue
				}
				if res.Err != nil {
					r.Fail("goto-error-on-origin", "%s on collected origin %s %d-%d returned %v", cl, o.addr.String(), o.rng.Start.Byte, o.rng.End.Byte, res.Err)
					continue
				}
				r.Evals++
				T := res.Val.(decoder.ReferenceTargets)
				reported := map[string]bool{}
				for _, t := range T {
					if t.OriginRange.Start.Byte != o.rng.Start.Byte || t.OriginRange.End.Byte != o.rng.End.Byte {
						continue // belongs to another origin at this position
					}
					reported[rtKey(t.Path.Path, t.Range)] = true
					if t.Range.Filename == PassThroughFile {
						r.Class("direct")
						continue
					}
					// ---- soundness: justified by one of the origins written at this range
					ok, why := false, "no collected declaration has the reported range"
					for _, og := range group {
						if og.direct {
							continue
						}
						if t.Path.Path != og.targetPath {
							why = fmt.Sprintf("origin points into path %q", og.targetPath)
							continue
						}
						for _, tg := range flat[t.Path.Path] {
							if tg.RangePtr == nil || rtKey(t.Path.Path, *tg.RangePtr) != rtKey(t.Path.Path, t.Range) {
								continue
							}
							if m, reason := necessaryMatch(tg, og, t.Path.Path == p.Path); m {
								ok = true
								o = og
								break
							} else {
								why = reason
							}
						}
						if ok {
							break
						}
					}
					if !ok {
						r.Fail("goto-unsound", "%s: origin %s (constraints %v) resolves to the declaration at %s %d-%d: %s", cl, o.addr.String(), o.cons, t.Range.Filename, t.Range.Start.Byte, t.Range.End.Byte, why)
					}
					resolved++
					switch {
					case t.Path.Path != p.Path:
						r.Class("cross-path")
					case len(o.addr) > 0 && (o.addr[0].String() == "self" || o.addr[0].String() == "count" || o.addr[0].String() == "each"):
						r.Class("block-local")
					case len(o.addr) > 2:
						r.Class("nested")
					default:
						r.Class("local")
					}
					// ---- inverse: find-references at the declaration's definition reports this origin
					if t.DefRangePtr != nil {
						tpi, okp := pathIdx[t.Path.Path]
						if okp {
							fr := Exec(w, d, Call{Kind: "findRefs", Path: tpi, File: t.DefRangePtr.Filename, Byte: t.DefRangePtr.Start.Byte})
							if fr.Panic == nil {
								found := false
								for _, ro := range fr.Val.(decoder.ReferenceOrigins) {
									if ro.Path.Path == p.Path && ro.Range.Filename == o.rng.Filename && ro.Range.Start.Byte == o.rng.Start.Byte && ro.Range.End.Byte == o.rng.End.Byte {
										found = true
									}
								}
								if !found {
									r.Fail("inverse-missing", "go-to-definition from %s (%s:%d-%d in %s) reports the declaration defined at %s:%d in %s, but find-references asked there does not report that origin (got %d origins)",
										o.addr.String(), o.rng.Filename, o.rng.Start.Byte, o.rng.End.Byte, p.Path, t.DefRangePtr.Filename, t.DefRangePtr.Start.Byte, t.Path.Path, len(fr.Val.(decoder.ReferenceOrigins)))
								}
							}
						}
					}
				}
				// ---- completeness
				for _, og := range group {
					if og.direct {
						continue
					}
					for _, tg := range flat[og.targetPath] {
						if sufficientMatch(tg, og) && !reported[rtKey(og.targetPath, *tg.RangePtr)] {
							r.Fail("goto-incomplete", "%s: origin %s (constraints %v) does not resolve to the declaration %s at %s:%d-%d which has exactly that address and satisfies a constraint", cl, og.addr.String(), og.cons, tgtString(tg), tg.RangePtr.Filename, tg.RangePtr.Start.Byte, tg.RangePtr.End.Byte)
						}
					}
				}
				if len(r.Failures) > 5 {
					return r
				}
			}
		}
	}
	// ---- find-references is a view of the same resolution: whatever it reports at a
	// declaration is a collected origin that points into this path and denotes a
	// declaration covering the queried position
	allGroups := map[string]map[string][]originInfo{}
	for _, p := range c.World.Paths {
		gm := map[string][]originInfo{}
		for _, og := range w.Reader.Ctx(p.Path).ReferenceOrigins {
			oi := originInfoOf(og, p.Path)
			gm[rtKey(p.Path, oi.rng)] = append(gm[rtKey(p.Path, oi.rng)], oi)
		}
		allGroups[p.Path] = gm
	}
	for pi, p := range c.World.Paths {
		seenDef := map[string]bool{}
		for _, tg := range flat[p.Path] {
			if tg.DefRangePtr == nil || tg.RangePtr == nil {
				continue
			}
			k := rtKey(p.Path, *tg.DefRangePtr)
			if seenDef[k] {
				continue
			}
			seenDef[k] = true
			pos := tg.DefRangePtr.Start.Byte
			fr := Exec(w, d, Call{Kind: "findRefs", Path: pi, File: tg.DefRangePtr.Filename, Byte: pos})
			if fr.Panic != nil {
				continue
			}
			for _, ro := range fr.Val.(decoder.ReferenceOrigins) {
				r.Evals++
				grp := allGroups[ro.Path.Path][rtKey(ro.Path.Path, ro.Range)]
				if len(grp) == 0 {
					r.Fail("refs-not-an-origin", "find-references at %s:%d in %s reports %s:%d-%d in %q which is not a collected origin", tg.DefRangePtr.Filename, pos, p.Path, ro.Range.Filename, ro.Range.Start.Byte, ro.Range.End.Byte, ro.Path.Path)
					continue
				}
				ok := false
				for _, og := range grp {
					if og.direct || og.targetPath != p.Path {
						continue
					}
					// declarations covering the position: top-level targets whose range contains
					// it, and everything nested below them (inferred attributes have no own range)
					for _, top := range w.Reader.Ctx(p.Path).ReferenceTargets {
						if top.RangePtr == nil || top.RangePtr.Filename != tg.DefRangePtr.Filename || pos < top.RangePtr.Start.Byte || pos > top.RangePtr.End.Byte {
							continue
						}
						var below []reference.Target
						flattenTargets(reference.Targets{top}, &below, 0)
						for _, cand := range below {
							if m, _ := necessaryMatch(cand, og, ro.Path.Path == p.Path); m {
								ok = true
							}
						}
					}
				}
				if !ok {
					r.Fail("refs-unsound", "find-references at %s:%d in %s reports the origin %s (%s:%d-%d in %s, pointing into %q) which does not denote any declaration at that position",
						tg.DefRangePtr.Filename, pos, p.Path, grp[0].addr.String(), ro.Range.Filename, ro.Range.Start.Byte, ro.Range.End.Byte, ro.Path.Path, grp[0].targetPath)
				}
			}
		}
	}
	if len(c.World.Paths) > 1 {
		r.Class("multi-path")
	}
	r.NonTrivial = resolved > 0
	return r
}

var _ = strings.Join

func TestC11(t *testing.T)        { Run(t, "C11", genC11, checkC11) }
func TestReplay_C11(t *testing.T) { Replay(t, "C11", checkC11) }
