package props

import (
	"encoding/json"
	"os"
	"sync"
	"testing"

	"github.com/hashicorp/hcl-lang/decoder"

	"verif/harness/gen"
	m "verif/harness/model"
	"verif/harness/world"
)

type C05Case struct {
	World      m.WorldM `json:"world"`
	Calls      []Call   `json:"calls"`
	Goroutines int      `json:"goroutines"`
	ShareDec   bool     `json:"shareDecoder"`
}

func genC05(g gen.G) C05Case {
	w := genHistoryWorld(g, 85)
	n := g.Int(40, 160)
	base := GenCalls(g, w, g.Int(6, 20))
	// many goroutines issue the same few queries, so that they meet on the same
	// blocks / file bytes; plus a tail of distinct ones
	calls := make([]Call, 0, n)
	for len(calls) < n {
		calls = append(calls, base[g.Int(0, len(base)-1)])
	}
	calls = append(calls, GenCalls(g, w, g.Int(5, 30))...)
	// sweep: completion and hover at every offset of one (smallish) file, each
	// call twice in a row so that two goroutines run the same query at once
	pi := g.Int(0, len(w.Paths)-1)
	f := w.Paths[pi].Files[g.Int(0, len(w.Paths[pi].Files)-1)]
	limit := len(f.Text)
	if limit > 400 {
		limit = 400
	}
	from := 0
	if len(f.Text) > limit {
		from = g.Int(0, len(f.Text)-limit)
	}
	for off := from; off <= from+limit; off++ {
		cl := Call{Kind: "completion", Path: pi, File: f.Name, Byte: off}
		calls = append(calls, cl, cl)
		if off%3 == 0 {
			hv := Call{Kind: "hover", Path: pi, File: f.Name, Byte: off}
			calls = append(calls, hv, hv)
		}
	}
	return C05Case{World: w, Calls: calls, Goroutines: gen.Pick(g, []int{4, 8, 16, 32}), ShareDec: g.Bool()}
}

// noteCurrentCase lets the driver pair a race report (which kills the process
// under GORACE=halt_on_error=1) with the case that was running.
func noteCurrentCase(id string, c interface{}) {
	p := os.Getenv("VERIF_LASTCASE")
	if p == "" {
		return
	}
	b, err := json.Marshal(c)
	if err != nil {
		return
	}
	fc, _ := json.Marshal(failCase{Property: id, Case: b})
	_ = os.WriteFile(p, fc, 0o644)
}

func checkC05(c C05Case) Result {
	var r Result
	noteCurrentCase("C05", c)
	w, pi := SafeBuild(func() *world.World { return world.Build(c.World) })
	if pi != nil {
		r.Exclude("library-panic(C01)")
		return r
	}
	before := worldSnapshot(w)
	// sequential reference
	d0 := w.Decoder()
	want := make([]string, len(c.Calls))
	for i, cl := range c.Calls {
		res := Exec(w, d0, cl)
		if res.Panic != nil {
			r.Exclude("library-panic(C01)")
			return r
		}
		want[i], _ = NormResult(res)
	}
	// concurrent execution
	got := make([]string, len(c.Calls))
	// The calls are dealt out statically (call i goes to goroutine i mod G) and the
	// goroutines never synchronise with each other between start and join: a shared
	// work counter would order every query after the ones fetched before it and hide
	// from the race detector all conflicting accesses that did not overlap in time.
	var wg sync.WaitGroup
	shared := w.Decoder()
	for gi := 0; gi < c.Goroutines; gi++ {
		wg.Add(1)
		go func(gi int) {
			defer wg.Done()
			var d *decoder.Decoder
			if c.ShareDec {
				d = shared
			} else {
				d = w.Decoder()
			}
			for i := gi; i < len(c.Calls); i += c.Goroutines {
				got[i], _ = NormResult(Exec(w, d, c.Calls[i]))
			}
		}(gi)
	}
	wg.Wait()
	for i := range want {
		r.Evals++
		if got[i] != want[i] {
			r.Fail("concurrent-differs:"+c.Calls[i].Kind, "%s returned a different result when run concurrently\n alone:      %s\n concurrent: %s",
				c.Calls[i], around(want[i], got[i]), around(got[i], want[i]))
			break
		}
	}
	if after := worldSnapshot(w); after != before {
		r.Fail("concurrent-mutation", "concurrent queries modified caller-supplied data:\n before: %s\n after:  %s", around(before, after), around(after, before))
	}
	if usesMergedSchema(c.World) {
		r.Class("dependent-or-extension-bodies")
	}
	if c.ShareDec {
		r.Class("shared-decoder")
	} else {
		r.Class("decoder-per-goroutine")
	}
	r.NonTrivial = usesMergedSchema(c.World) && c.Goroutines >= 4
	return r
}

func TestC05(t *testing.T) { Run(t, "C05", genC05, checkC05) }

// The replay repeats the case several times: a schedule-dependent failure may
// need more than one attempt to show up again.
func TestReplay_C05(t *testing.T) {
	Replay(t, "C05", func(c C05Case) Result {
		var r Result
		for i := 0; i < 20; i++ {
			r = checkC05(c)
			if len(r.Failures) > 0 {
				return r
			}
		}
		return r
	})
}
