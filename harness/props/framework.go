// Package props holds one file per property (cNN_test.go) plus this small
// framework: it runs a generated case through a pure check function, collects
// per-case statistics for the evidence file, excludes listed known findings so
// the search continues behind them, and writes a plain JSON replay case for
// every failure.
package props

import (
	"crypto/sha1"
	"encoding/binary"
	"encoding/json"
	"fmt"
	"os"
	"runtime/debug"
	"sort"
	"strings"
	"sync"
	"testing"

	"pgregory.net/rapid"

	"verif/harness/gen"
)

// Failure is one violation found in a case. Sig identifies the failing call
// site / input shape; it is what known findings are matched against.
type Failure struct {
	Sig string `json:"sig"`
	Msg string `json:"msg"`
}

// Result is what a check function reports for one case.
type Result struct {
	Classes       []string
	NonTrivial    bool
	Failures      []Failure
	Excluded      []string
	panicReported bool // don't-care / upstream / precondition labels (counted)
	Evals         int  // number of oracle evaluations inside the case (default 1)
}

func (r *Result) Fail(sig, format string, args ...interface{}) {
	r.Failures = append(r.Failures, Failure{Sig: sig, Msg: fmt.Sprintf(format, args...)})
}

func (r *Result) Class(c string) {
	for _, x := range r.Classes {
		if x == c {
			return
		}
	}
	r.Classes = append(r.Classes, c)
}

func (r *Result) Exclude(c string) {
	r.Excluded = append(r.Excluded, c)
	if c == "library-panic(C01)" && !r.panicReported {
		// The verdict on this property cannot be given for the case, and a library panic is a
		// violation in its own right (of C01): it is never dropped silently, whichever
		// check's generator happened to reach it.
		r.panicReported = true
		if lp := lastPanic(); lp != nil {
			r.Fail("library-panic:"+lp.Sig, "the library panicked while this property was being checked (this violates C01, and no verdict is possible here): %s\n%s", lp.Value, clipStack(lp.Stack))
		} else {
			r.Fail("library-panic", "the library panicked while this property was being checked (this violates C01)")
		}
	}
}

var (
	panicMu   sync.Mutex
	panicLast *PanicInfo
)

func notePanic(pi *PanicInfo) {
	panicMu.Lock()
	panicLast = pi
	panicMu.Unlock()
}

func lastPanic() *PanicInfo {
	panicMu.Lock()
	defer panicMu.Unlock()
	return panicLast
}

func clipStack(st string) string {
	if i := strings.Index(st, "github.com/hashicorp/hcl-lang/"); i > 0 {
		st = st[i:]
	}
	if len(st) > 1800 {
		st = st[:1800]
	}
	return st
}

// ---------------------------------------------------------------------------
// known findings

type Finding struct {
	Property string `json:"property"`
	Kind     string `json:"kind"` // known | fixed
	Sig      string `json:"sig,omitempty"`
	What     string `json:"what"`
	Case     string `json:"case,omitempty"`
	Commit   string `json:"commit,omitempty"`
}

type findingsFile struct {
	Findings []Finding `json:"findings"`
}

var (
	knownOnce sync.Once
	known     []Finding
)

func knownFindings() []Finding {
	knownOnce.Do(func() {
		p := os.Getenv("VERIF_KNOWN")
		if p == "" {
			p = "../../known_findings.json"
		}
		b, err := os.ReadFile(p)
		if err != nil {
			return
		}
		var ff findingsFile
		if json.Unmarshal(b, &ff) == nil {
			for _, f := range ff.Findings {
				if f.Kind == "known" {
					known = append(known, f)
				}
			}
		}
	})
	return known
}

func isKnown(id string, f Failure) bool {
	for _, k := range knownFindings() {
		if k.Property == id && k.Sig != "" && k.Sig == f.Sig {
			return true
		}
	}
	return false
}

// ---------------------------------------------------------------------------
// statistics

type propStats struct {
	Evaluations   int            `json:"evaluations"`
	Cases         int            `json:"cases"`
	NonTrivial    []uint64       `json:"nontrivial_hashes"`
	Classes       map[string]int `json:"classes"`
	Excluded      map[string]int `json:"excluded"`
	ExcludedKnown int            `json:"excluded_known"`
	Samples       []interface{}  `json:"samples"`
	sampleClasses map[string]int
	ntSet         map[uint64]bool
}

var (
	statsMu sync.Mutex
	stats   = map[string]*propStats{}
)

func statsFor(id string) *propStats {
	s, ok := stats[id]
	if !ok {
		s = &propStats{Classes: map[string]int{}, Excluded: map[string]int{}, sampleClasses: map[string]int{}, ntSet: map[uint64]bool{}}
		stats[id] = s
	}
	return s
}

func record(id string, caseJSON []byte, r Result, knownSkipped int) {
	statsMu.Lock()
	defer statsMu.Unlock()
	s := statsFor(id)
	s.Cases++
	if r.Evals > 0 {
		s.Evaluations += r.Evals
	} else {
		s.Evaluations++
	}
	s.ExcludedKnown += knownSkipped
	for _, c := range r.Classes {
		s.Classes[c]++
	}
	for _, c := range r.Excluded {
		s.Excluded[c]++
	}
	if r.NonTrivial {
		h := sha1.Sum(caseJSON)
		s.ntSet[binary.BigEndian.Uint64(h[:8])] = true
	}
	// keep a few samples, preferring non-trivial cases of classes not yet sampled
	if r.NonTrivial && len(s.Samples) < 6 {
		key := strings.Join(r.Classes, ",")
		if s.sampleClasses[key] == 0 {
			s.sampleClasses[key]++
			s.Samples = append(s.Samples, sampleOf(caseJSON, r))
		}
	}
}

func sampleOf(caseJSON []byte, r Result) interface{} {
	out := map[string]interface{}{"classes": r.Classes}
	if len(caseJSON) <= 5000 {
		out["case"] = json.RawMessage(caseJSON)
	} else {
		out["case_head"] = string(caseJSON[:3000])
		out["case_bytes"] = len(caseJSON)
	}
	return out
}

// FlushStats writes the per-process statistics; called from TestMain.
func FlushStats() {
	p := os.Getenv("VERIF_STATS")
	if p == "" {
		return
	}
	statsMu.Lock()
	defer statsMu.Unlock()
	for _, s := range stats {
		s.NonTrivial = s.NonTrivial[:0]
		for h := range s.ntSet {
			s.NonTrivial = append(s.NonTrivial, h)
		}
		sort.Slice(s.NonTrivial, func(i, j int) bool { return s.NonTrivial[i] < s.NonTrivial[j] })
	}
	b, _ := json.Marshal(stats)
	_ = os.WriteFile(p, b, 0o644)
}

// ---------------------------------------------------------------------------
// running

type failCase struct {
	Property string          `json:"property"`
	Case     json.RawMessage `json:"case"`
	Failures []Failure       `json:"failures"`
}

func writeFailCase(id string, caseJSON []byte, fs []Failure) {
	p := os.Getenv("VERIF_FAILCASE")
	if p == "" {
		return
	}
	b, _ := json.MarshalIndent(failCase{Property: id, Case: caseJSON, Failures: fs}, "", " ")
	_ = os.WriteFile(p, b, 0o644)
}

// libraryPanic reports whether a recovered panic originated in library code
// (hcl-lang, hcl, cty) rather than in the harness itself.
func libraryPanic(stack string) bool {
	lines := strings.Split(stack, "\n")
	for _, l := range lines {
		l = strings.TrimSpace(l)
		if strings.HasPrefix(l, "panic(") || strings.HasPrefix(l, "runtime.") || strings.HasPrefix(l, "runtime/debug.") ||
			strings.HasPrefix(l, "goroutine ") || strings.HasPrefix(l, "/") || l == "" || strings.Contains(l, "props.safeCheck") {
			continue
		}
		return strings.HasPrefix(l, "github.com/hashicorp/") || strings.HasPrefix(l, "github.com/zclconf/") ||
			strings.HasPrefix(l, "github.com/apparentlymart/") || strings.HasPrefix(l, "sort.") || strings.HasPrefix(l, "strings.") || strings.HasPrefix(l, "bytes.")
	}
	return false
}

func safeCheck[C any](id string, c C, check func(C) Result) (r Result, harnessBug string) {
	defer func() {
		if p := recover(); p != nil {
			st := string(debug.Stack())
			if libraryPanic(st) {
				// a panic of the library belongs to C01; other properties skip the case
				r = Result{Excluded: []string{"library-panic(C01)"}}
				if id == "C01" {
					r.Fail("panic:uncaught", "uncaught library panic: %v\n%s", p, st)
				}
				return
			}
			harnessBug = fmt.Sprintf("panic in harness: %v\n%s", p, st)
		}
	}()
	return check(c), ""
}

// Run drives one property with rapid.
func Run[C any](t *testing.T, id string, genCase func(gen.G) C, check func(C) Result) {
	rapid.Check(t, func(rt *rapid.T) {
		c := genCase(gen.G{T: rt})
		caseJSON, err := json.Marshal(c)
		if err != nil {
			rt.Fatalf("HARNESS-BUG: case not serialisable: %s", err)
		}
		r, bug := safeCheck(id, c, check)
		if bug != "" {
			rt.Fatalf("HARNESS-BUG: %s", bug)
		}
		var real []Failure
		knownSkipped := 0
		for _, f := range r.Failures {
			if isKnown(id, f) {
				knownSkipped++
				continue
			}
			real = append(real, f)
		}
		record(id, caseJSON, r, knownSkipped)
		if len(real) > 0 {
			writeFailCase(id, caseJSON, real)
			msgs := make([]string, 0, len(real))
			for _, f := range real {
				msgs = append(msgs, "["+f.Sig+"] "+f.Msg)
			}
			rt.Fatalf("property %s violated:\n%s", id, strings.Join(msgs, "\n"))
		}
	})
}

// Replay runs a stored JSON case (VERIF_REPLAY) through the check function,
// bypassing rapid. Known findings are NOT excluded here.
func Replay[C any](t *testing.T, id string, check func(C) Result) {
	p := os.Getenv("VERIF_REPLAY")
	if p == "" {
		t.Skip("VERIF_REPLAY not set")
	}
	b, err := os.ReadFile(p)
	if err != nil {
		t.Fatalf("HARNESS-BUG: cannot read replay file: %s", err)
	}
	var fc failCase
	if err := json.Unmarshal(b, &fc); err != nil {
		t.Fatalf("HARNESS-BUG: cannot decode replay file: %s", err)
	}
	if fc.Property != id {
		t.Skipf("replay file is for %s", fc.Property)
	}
	var c C
	if err := json.Unmarshal(fc.Case, &c); err != nil {
		t.Fatalf("HARNESS-BUG: cannot decode case: %s", err)
	}
	r, bug := safeCheck(id, c, check)
	if bug != "" {
		t.Fatalf("HARNESS-BUG: %s", bug)
	}
	if len(r.Failures) > 0 {
		for _, f := range r.Failures {
			fmt.Printf("REPLAY-FAILURE property=%s sig=%s\n%s\n", id, f.Sig, f.Msg)
		}
		t.Fatalf("property %s violated by replayed case", id)
	}
}
