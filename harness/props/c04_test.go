package props

import (
	"testing"

	"verif/harness/gen"
	m "verif/harness/model"
	"verif/harness/oracle"
	"verif/harness/world"
)

type C04Case struct {
	World m.WorldM `json:"world"`
	Calls []Call   `json:"calls"`
}

func genHistoryWorld(g gen.G, depBoostPct int) m.WorldM {
	o := gen.WorldOpts{
		Schema:   gen.SchemaOpts{MaxDepth: 2, DepBoost: g.Chance(depBoostPct)},
		Cfg:      gen.CfgOpts{Violations: 6, Layout: false, HalfTyped: 12, RefHeavy: g.Chance(45), CallHeavy: g.Chance(40)},
		MaxPaths: 2, MaxFiles: 2, Edits: 1, Faults: true,
	}
	if g.Chance(50) {
		o.Edits = 0
	}
	if g.Chance(25) {
		// a Terraform-like world in which references resolve (matching walks the shared,
		// collected targets and origins)
		return g.RefWorld(g.Int(1, 2), false)
	}
	return g.World(o)
}

func genC04(g gen.G) C04Case {
	w := genHistoryWorld(g, 60)
	calls := GenCalls(g, w, g.Int(8, 30))
	// sprinkle queries that return errors: unknown file, position out of range
	for i := range calls {
		if g.Chance(8) {
			calls[i].File = "missing.tf"
		} else if g.Chance(6) {
			calls[i].Byte += 100000
		}
	}
	// every whole-file query on every file, once before and once after the positional ones
	var whole []Call
	for pi, p := range w.Paths {
		for _, f := range p.Files {
			for _, k := range FileKinds {
				whole = append(whole, Call{Kind: k, Path: pi, File: f.Name})
			}
		}
	}
	if g.Bool() {
		calls = append(append([]Call{}, whole...), calls...)
	}
	calls = append(calls, whole...)
	return C04Case{World: w, Calls: calls}
}

// worldSnapshot snapshots everything the caller supplied: every path context
// (schema tree, files incl. bytes up to capacity, functions, collected targets
// and origins incl. spare capacity, validators) and the decoder context.
func worldSnapshot(w *world.World) string {
	type all struct {
		Ctxs []interface{}
		DCtx interface{}
	}
	a := all{DCtx: &w.DCtx}
	for _, p := range w.M.Paths {
		a.Ctxs = append(a.Ctxs, w.Reader.Ctx(p.Path))
	}
	return oracle.Snapshot(&a)
}

// worldSnapshotNoRefs is worldSnapshot without the collected targets and
// origins (which the caller itself replaces when it stores a collection result).
func worldSnapshotNoRefs(w *world.World) string {
	type all struct {
		Ctxs []interface{}
		DCtx interface{}
	}
	a := all{DCtx: &w.DCtx}
	for _, p := range w.M.Paths {
		pc := *w.Reader.Ctx(p.Path)
		pc.ReferenceTargets, pc.ReferenceOrigins = nil, nil
		a.Ctxs = append(a.Ctxs, &pc)
	}
	return oracle.Snapshot(&a)
}

func usesMergedSchema(w m.WorldM) bool {
	var walk func(b *m.BodyM) bool
	walk = func(b *m.BodyM) bool {
		if b == nil {
			return false
		}
		for _, bl := range b.Blocks {
			if len(bl.Deps) > 0 || (bl.Body != nil && bl.Body.Ext != nil) {
				return true
			}
			if walk(bl.Body) {
				return true
			}
		}
		return false
	}
	for _, p := range w.Paths {
		if walk(p.Schema) {
			return true
		}
	}
	return false
}

func checkC04(c C04Case) Result {
	var r Result
	// the collectors are the first operations ever run on the schema: snapshot before them
	var pristine, collected string
	w, pi := SafeBuild(func() *world.World {
		w := world.Build(c.World)
		pristine = worldSnapshotNoRefs(w)
		return w
	})
	if pi != nil {
		r.Exclude("library-panic(C01)")
		return r
	}
	collected = worldSnapshotNoRefs(w)
	r.Evals++
	if collected != pristine {
		r.Fail("mutation:collect", "collecting reference targets and origins modified caller-supplied data:\n before: %s\n after:  %s", around(pristine, collected), around(collected, pristine))
		return r
	}
	d := w.Decoder()
	before := worldSnapshot(w)
	errs := 0
	for i, cl := range c.Calls {
		res := Exec(w, d, cl)
		if res.Panic != nil {
			r.Exclude("library-panic(C01)")
			return r
		}
		if res.Err != nil {
			errs++
		}
		after := worldSnapshot(w)
		r.Evals++
		if after != before {
			r.Fail("mutation:"+cl.Kind, "step %d %s modified caller-supplied data:\n before: %s\n after:  %s", i, cl, around(before, after), around(after, before))
			return r
		}
	}
	if usesMergedSchema(c.World) {
		r.Class("dependent-or-extension-bodies")
	}
	if errs > 0 {
		r.Class("with-error-queries")
	}
	depClasses(&r, c.World, w)
	r.NonTrivial = usesMergedSchema(c.World) && errs > 0
	return r
}

func TestC04(t *testing.T)        { Run(t, "C04", genC04, checkC04) }
func TestReplay_C04(t *testing.T) { Replay(t, "C04", checkC04) }
