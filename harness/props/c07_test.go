package props

import (
	"regexp"
	"strings"
	"testing"

	"github.com/hashicorp/hcl-lang/decoder"
	"github.com/hashicorp/hcl-lang/lang"
	"github.com/hashicorp/hcl/v2"
	"github.com/hashicorp/hcl/v2/hclsyntax"

	"verif/harness/gen"
	m "verif/harness/model"
	"verif/harness/refmodel"
	"verif/harness/world"
)

type C07Case struct {
	World m.WorldM `json:"world"`
}

func genC07(g gen.G) C07Case {
	o := gen.WorldOpts{
		Schema:   gen.SchemaOpts{MaxDepth: 3, NoHooks: true, DepBoost: true},
		Cfg:      gen.CfgOpts{Violations: 10, Layout: true},
		MaxPaths: 1, MaxFiles: 1, Edits: 1, Validators: 100,
	}
	if g.Chance(80) {
		o.Edits = 0
	}
	w := g.World(o)
	identUsed := false
	// sprinkle blank lines and half-typed names into bodies: these are the cursors
	// where name completion happens
	f := &w.Paths[0].Files[0]
	lines := strings.Split(f.Text, "\n")
	var out []string
	for _, l := range lines {
		out = append(out, l)
		if g.Chance(22) && !strings.Contains(f.Text, "<<") {
			ind := l[:len(l)-len(strings.TrimLeft(l, " "))]
			if strings.HasSuffix(strings.TrimSpace(l), "{") {
				ind += "  "
			}
			if identUsed || g.Chance(60) {
				out = append(out, ind)
			} else {
				// at most one half-typed name per file: each is a parse error on its line
				identUsed = true
				out = append(out, ind+gen.Pick(g, []string{"a", "ab", "b", "c", "co", "for", "n", "na", "dyn", "res", "bl", "é", "x-", "zz", "t", "id", "s"}))
			}
		}
	}
	f.Text = strings.Join(out, "\n")
	return C07Case{World: w}
}

var identOnlyRe = regexp.MustCompile(`^[ \t]*([\pL_][\pL\pN_-]*)[ \t\r]*$`)

// lineAt returns the line containing off and the offset of its start.
func lineAt(text string, off int) (string, int) {
	s := strings.LastIndexByte(text[:off], '\n') + 1
	e := strings.IndexByte(text[off:], '\n')
	if e < 0 {
		e = len(text)
	} else {
		e += off
	}
	return text[s:e], s
}

var acceptSummaries = []string{"Unexpected attribute", "Unexpected block", "Too many blocks", "Too many labels"}

func countAccept(ds hcl.Diagnostics) int {
	n := 0
	for _, d := range ds {
		for _, s := range acceptSummaries {
			if strings.HasPrefix(d.Summary, s) {
				n++
			}
		}
	}
	return n
}

var tabstopRe = regexp.MustCompile(`\$\{\d+:([^}]*)\}|\$\{\d+\}|\$\d+`)

func expandSnippet(s string) string {
	return tabstopRe.ReplaceAllString(s, "$1")
}

func checkC07(c C07Case) Result {
	var r Result
	w, pi := SafeBuild(func() *world.World { return world.Build(c.World) })
	if pi != nil {
		r.Exclude("library-panic(C01)")
		return r
	}
	d := w.Decoder()
	p := c.World.Paths[0]
	if p.Schema == nil {
		return r
	}
	pc := w.Reader.Ctx(p.Path)
	accepted := 0
	for _, f := range p.Files {
		hf := pc.Files[f.Name]
		body, ok := hf.Body.(*hclsyntax.Body)
		if !ok {
			continue
		}
		fi := analyseFile(f.Name, hf)
		text := f.Text
		baseDiags := -1
		_, pdiags := hclsyntax.ParseConfig([]byte(text), f.Name, hcl.InitialPos)
		// exactness is only judged where error recovery cannot have reshaped the
		// body: parse errors are tolerated on the cursor's own line only
		errLines := map[int]bool{}
		for _, pd := range pdiags {
			if pd.Severity == hcl.DiagError && pd.Subject != nil {
				errLines[pd.Subject.Start.Line] = true
				errLines[pd.Subject.End.Line] = true
			}
		}
		ltoks, _ := hclsyntax.LexConfig([]byte(text), f.Name, hcl.InitialPos)
		inComment := func(off int) bool {
			for _, tk := range ltoks {
				if tk.Type == hclsyntax.TokenComment && off >= tk.Range.Start.Byte && off <= tk.Range.End.Byte {
					return true
				}
			}
			return false
		}
		for _, off := range BoundaryOffsets([]byte(text), 500) {
			if len(fi.tainted) > 0 && fi.inTaint(off) {
				continue
			}
			if inComment(off) {
				continue
			}
			curLine := 1 + strings.Count(text[:off], "\n")
			foreign := false
			for l := range errLines {
				_ = curLine
				if !loneIdentLine(text, l) {
					foreign = true
				}
			}
			if foreign {
				r.Exclude("parse-errors-elsewhere")
				break
			}
			loc := refmodel.Locate(p.Schema, body, off)
			if loc.BC == nil || loc.BC.Schema == nil {
				continue
			}
			if loc.BC.Undetermined {
				r.Exclude("dontcare:undetermined-region")
				continue
			}
			class, prefix := "", ""
			var wantNames []string
			dontCare := map[string]bool{}
			line, lineStart := lineAt(text, off)
			switch loc.Kind {
			case "attrName":
				a := loc.Attr
				if off < a.NameRange.Start.Byte || off >= a.NameRange.End.Byte {
					continue
				}
				class, prefix = "attribute-name", text[a.NameRange.Start.Byte:off]
			case "blockType":
				b := loc.Block
				if off < b.TypeRange.Start.Byte || off >= b.TypeRange.End.Byte {
					continue
				}
				class, prefix = "block-type", text[b.TypeRange.Start.Byte:off]
			case "label":
				b := loc.Block
				bm, known := loc.BC.Schema.Blocks[b.Type]
				if !known || loc.LabelIdx >= len(bm.Labels) || (b.Type == "dynamic" && loc.BC.DynamicOn) {
					continue
				}
				lr := b.LabelRanges[loc.LabelIdx]
				raw := text[lr.Start.Byte:lr.End.Byte]
				quoted := strings.HasPrefix(raw, `"`)
				if strings.ContainsAny(raw, `\$%`) {
					continue // escapes / templates in labels: raw text differs from the value
				}
				if quoted {
					if !(off > lr.Start.Byte && off < lr.End.Byte) || !strings.HasSuffix(raw, `"`) || len(raw) < 2 {
						continue
					}
					prefix = text[lr.Start.Byte+1 : off]
				} else {
					if !(off >= lr.Start.Byte && off < lr.End.Byte) {
						continue
					}
					prefix = text[lr.Start.Byte:off]
				}
				class = "label"
				if bm.Labels[loc.LabelIdx].Completable {
					wantNames = refmodel.ExpectedLabelCandidates(bm, loc.LabelIdx, prefix)
					class = "completable-label"
				}
			case "bodyWhitespace":
				switch {
				case strings.TrimSpace(line) == "":
					class, prefix = "blank-line", ""
				default:
					mm := identOnlyRe.FindStringSubmatchIndex(line)
					if mm == nil {
						continue
					}
					is, ie := lineStart+mm[2], lineStart+mm[3]
					if off != ie {
						// cursor in the middle of a lone identifier: whether the typed prefix is
						// the text before the cursor or the whole word is not decided
						continue
					}
					class, prefix = "half-typed-name", text[is:off]
				}
				// a blank / ident-only line inside an unterminated construct is the parser's business
				if loc.Block != nil {
					continue
				}
			default:
				continue
			}
			if class != "label" && class != "completable-label" {
				bcands := refmodel.ExpectedBodyCandidates(loc.BC, prefix)
				wantNames, dontCare = bcands.Names, bcands.DontCare
			}
			cl := Call{Kind: "completion", Path: 0, File: f.Name, Byte: off}
			res := Exec(w, d, cl)
			if res.Panic != nil {
				r.Exclude("library-panic(C01)")
				continue
			}
			r.Evals++
			r.Class(class)
			if prefix != "" {
				r.Class("with-prefix")
			}
			if loc.BC.Sel.Index >= 0 {
				r.Class("dependent-body-in-force")
			}
			if _, ok := res.Err.(*decoder.PosOutOfRangeError); ok {
				// the root body's range is the parser's (it collapses for blank / comment-only files)
				r.Exclude("upstream:root-body-range")
				continue
			}
			if res.Err != nil {
				if len(wantNames) > 0 {
					r.Fail("c07-error:"+class, "%s (%s, prefix %q) returned error %v, expected candidates %v\n%s", cl, class, prefix, res.Err, wantNames, clip(text, 700))
				}
				continue
			}
			cands := res.Val.(lang.Candidates)
			var got []string
			for _, cd := range cands.List {
				if dontCare[cd.Label] {
					continue
				}
				got = append(got, cd.Label)
			}
			if len(wantNames) > maxCandidates-2 {
				r.Class("above-limit")
				continue // subset / incomplete flag are C06's business
			}
			if strings.Join(got, "\x00") != strings.Join(wantNames, "\x00") {
				missing, surplus := diffSorted(wantNames, got)
				kind := "order-or-duplicates"
				if len(missing) > 0 {
					kind = "missing"
				} else if len(surplus) > 0 {
					kind = "surplus"
				}
				r.Fail("c07:"+class+":"+kind, "%s (%s, typed prefix %q): candidates differ from what the effective schema still allows\n expected: %v\n got:      %v\n missing: %v surplus: %v\n%s",
					cl, class, prefix, wantNames, got, missing, surplus, clip(text, 900))
				if len(r.Failures) > 4 {
					return r
				}
				continue
			}
			// ---- acceptance: applying a candidate never adds unexpected / surplus diagnostics
			if len(cands.List) > 0 && accepted < 6 && (class == "blank-line" || class == "half-typed-name") {
				if baseDiags < 0 {
					if dres := Exec(w, d, Call{Kind: "validateFile", Path: 0, File: f.Name}); dres.Err == nil && dres.Panic == nil {
						baseDiags = countAccept(dres.Val.(hcl.Diagnostics))
					}
				}
				cd := cands.List[(off+accepted)%len(cands.List)]
				rg := cd.TextEdit.Range
				if baseDiags >= 0 && rg.Start.Byte <= rg.End.Byte && rg.End.Byte <= len(text) && !dontCare[cd.Label] {
					accepted++
					newText := text[:rg.Start.Byte] + expandSnippet(cd.TextEdit.Snippet) + text[rg.End.Byte:]
					wm := cloneWorld(c.World)
					wm.Paths[0].Files[0].Text = newText
					if w2, pi := SafeBuild(func() *world.World { return world.Build(wm) }); pi == nil {
						dres := Exec(w2, w2.Decoder(), Call{Kind: "validateFile", Path: 0, File: f.Name})
						if dres.Err == nil && dres.Panic == nil {
							r.Class("acceptance-checked")
							// only diagnostics about the inserted item itself count: inserting a key
							// attribute legitimately changes which dependent body is in force
							inserted := expandSnippet(cd.TextEdit.Snippet)
							var about hcl.Diagnostics
							for _, dg := range dres.Val.(hcl.Diagnostics) {
								if dg.Subject != nil && dg.Subject.Start.Byte >= rg.Start.Byte && dg.Subject.End.Byte <= rg.Start.Byte+len(inserted) {
									about = append(about, dg)
								}
							}
							if n := countAccept(about); n > 0 {
								baseDiags = 0
								r.Fail("c07:accepting-adds-diagnostic:"+cd.Kind.String(), "%s: accepting candidate %q (snippet %q) raises the number of unexpected/surplus diagnostics from %d to %d\n before:\n%s\n after:\n%s",
									cl, cd.Label, cd.TextEdit.Snippet, baseDiags, n, clip(text, 600), clip(newText, 700))
							}
						}
					}
				}
			}
		}
	}
	r.NonTrivial = len(r.Classes) >= 2
	return r
}

func TestC07(t *testing.T)        { Run(t, "C07", genC07, checkC07) }
func TestReplay_C07(t *testing.T) { Replay(t, "C07", checkC07) }

// loneIdentLine reports whether line l (1-based) holds nothing but an identifier:
// the parser reports it and resumes with the next line, leaving the body intact.
func loneIdentLine(text string, l int) bool {
	lines := strings.Split(text, "\n")
	if l < 1 || l > len(lines) {
		return false
	}
	return identOnlyRe.MatchString(lines[l-1])
}
