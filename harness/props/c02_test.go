package props

import (
	"bytes"
	"fmt"
	"testing"
	"unicode/utf8"

	"github.com/hashicorp/hcl-lang/decoder"
	"github.com/hashicorp/hcl-lang/lang"
	"github.com/hashicorp/hcl/v2"
	"github.com/hashicorp/hcl/v2/hclsyntax"

	"verif/harness/gen"
	m "verif/harness/model"
	"verif/harness/oracle"
	"verif/harness/world"
)

type C02Case struct {
	World m.WorldM `json:"world"`
}

func genC02(g gen.G) C02Case {
	if g.Chance(12) {
		// a configuration in HCL's JSON syntax with hand-made layout (blocks in array form)
		d := genC19(g)
		schema := d.Schema
		return C02Case{World: m.WorldM{Paths: []m.PathM{{Path: "p0", Schema: &schema,
			Files: []m.FileM{{Name: "main.tf.json", Text: gen.RenderJSONLayout(d.Items, d.Layout), JSON: true}}}}}}
	}
	if g.Chance(30) {
		// a world in which references resolve: ranges derived from matched targets and origins
		return C02Case{World: g.RefWorld(g.Int(1, 2), false)}
	}
	o := gen.WorldOpts{
		Schema:   gen.SchemaOpts{MaxDepth: 2},
		Cfg:      gen.CfgOpts{Violations: 6, Layout: true, HalfTyped: 6},
		MaxPaths: 2, MaxFiles: 2, Edits: 2,
	}
	if g.Chance(35) {
		o.Edits = 0
	}
	if g.Chance(40) {
		o.Schema.HookPct = 45 // edit ranges of hook candidates are computed from raw text
	}
	return C02Case{World: g.World(o)}
}

// PassThroughFile is the only file name the schema model uses for caller-supplied
// (pass-through) target ranges; such ranges are exempt by the statement.
const PassThroughFile = "target.tf"

// fileInfo is the per-file ground truth used by the range checks.
type fileInfo struct {
	src      []byte
	astKeys  map[string]bool // byte-identical AST node / token ranges
	badKeys  map[string]bool // AST ranges that are themselves inconsistent
	tainted  [][2]int        // byte regions of top-level items containing a bad AST range
	posModel bool            // the independent line/column model applies to this file
	native   bool
}

func rkey(r hcl.Range) string {
	return fmt.Sprintf("%d:%d:%d-%d:%d:%d", r.Start.Line, r.Start.Column, r.Start.Byte, r.End.Line, r.End.Column, r.End.Byte)
}

func analyseFile(name string, hf *hcl.File) *fileInfo {
	fi := &fileInfo{src: hf.Bytes, astKeys: map[string]bool{}, badKeys: map[string]bool{}}
	body, ok := hf.Body.(*hclsyntax.Body)
	if !ok {
		// JSON: positions inside strings with escapes are reported relative to the unescaped
		// string upstream (hashicorp/hcl#598); files without any escape are under the model
		fi.posModel = oracle.PosModelOK(hf.Bytes, name) && utf8.Valid(hf.Bytes) && !bytes.Contains(hf.Bytes, []byte("\\"))
		return fi
	}
	fi.native = true
	// (columns of bytes that are not valid UTF-8 depend on how much context the counter is given:
	// the independent line/column model is only claimed for valid UTF-8)
	fi.posModel = oracle.PosModelOK(hf.Bytes, name) && utf8.Valid(hf.Bytes)
	files := map[string][]byte{name: hf.Bytes}
	toks, _ := hclsyntax.LexConfig(hf.Bytes, name, hcl.InitialPos)
	for _, tk := range toks {
		fi.astKeys[rkey(tk.Range)] = true
	}
	type item struct {
		start int
		node  interface{}
	}
	var items []item
	for _, a := range body.Attributes {
		items = append(items, item{a.SrcRange.Start.Byte, a})
	}
	for _, b := range body.Blocks {
		items = append(items, item{b.TypeRange.Start.Byte, b})
	}
	// sort by start
	for i := 1; i < len(items); i++ {
		for j := i; j > 0 && items[j].start < items[j-1].start; j-- {
			items[j], items[j-1] = items[j-1], items[j]
		}
	}
	for i, it := range items {
		bad := false
		oracle.WalkRanges(it.node, nil, func(path string, r hcl.Range) {
			fi.astKeys[rkey(r)] = true
			if r.Filename == "" && r.Start.Byte == 0 && r.End.Byte == 0 && r.Start.Line == 0 {
				return // zero value of an unset optional range field
			}
			if p := oracle.CheckRange(path, r, files); p != nil {
				fi.badKeys[rkey(r)] = true
				bad = true
			}
		})
		if n, ok := it.node.(hclsyntax.Node); ok {
			_ = hclsyntax.VisitAll(n, func(nd hclsyntax.Node) hcl.Diagnostics {
				switch nd.(type) {
				case hclsyntax.Attributes, hclsyntax.Blocks:
					return nil // range-less container pseudo-nodes
				}
				r := nd.Range()
				fi.astKeys[rkey(r)] = true
				if oracle.CheckRange("node", r, files) != nil {
					fi.badKeys[rkey(r)] = true
					bad = true
				}
				return nil
			})
		}
		if bad {
			end := len(hf.Bytes)
			if i+1 < len(items) {
				end = items[i+1].start
			}
			fi.tainted = append(fi.tainted, [2]int{it.start, end})
		}
	}
	// body-level ranges
	for _, r := range []hcl.Range{body.SrcRange, body.EndRange} {
		fi.astKeys[rkey(r)] = true
		if oracle.CheckRange("body", r, files) != nil {
			fi.badKeys[rkey(r)] = true
		}
	}
	return fi
}

func (fi *fileInfo) inTaint(b int) bool {
	for _, t := range fi.tainted {
		if b >= t[0] && b <= t[1] {
			return true
		}
	}
	return false
}

type rangeChecker struct {
	w        *world.World
	infos    map[string]map[string]*fileInfo // path -> file -> info
	r        *Result
	computed int
	checked  int
	upstream int
	cur      string // current call, for messages
}

func newRangeChecker(w *world.World, r *Result) *rangeChecker {
	rc := &rangeChecker{w: w, r: r, infos: map[string]map[string]*fileInfo{}}
	for _, p := range w.M.Paths {
		pc := w.Reader.Ctx(p.Path)
		mp := map[string]*fileInfo{}
		for name, hf := range pc.Files {
			mp[name] = analyseFile(name, hf)
		}
		rc.infos[p.Path] = mp
	}
	return rc
}

// check verifies one emitted range reported for `path`.
func (rc *rangeChecker) check(what string, path string, rng hcl.Range) {
	if rng.Filename == PassThroughFile {
		return // caller-supplied range, passed through unchanged
	}
	files, ok := rc.infos[path]
	if !ok {
		rc.r.Fail("range:unknown-path", "%s: range reported for unknown path %q", what, path)
		return
	}
	fi, ok := files[rng.Filename]
	if !ok {
		rc.r.Fail("range:foreign-file:"+sigOf(what), "%s: range names file %q which is not a file of path %q", what, rng.Filename, path)
		return
	}
	rc.checked++
	key := rkey(rng)
	if !fi.astKeys[key] {
		rc.computed++
	}
	if fi.badKeys[key] || (len(fi.tainted) > 0 && (fi.inTaint(rng.Start.Byte) || fi.inTaint(rng.End.Byte))) {
		rc.upstream++
		if fi.badKeys[key] {
			rc.r.Class("upstream-range-identical-at:" + sigOf(what))
			// A hover answers with the extent of the element it describes. An extent the parser
			// itself left inconsistent (end before start: an unclosed call at the end of a body)
			// may be echoed by the outline, which mirrors the AST; a hover that hands it back
			// tells the client to highlight a place that does not exist.
			if sg := sigOf(what); sg == "hover.Range" && (rng.End.Byte < rng.Start.Byte || rng.End.Byte > len(fi.src)) {
				rc.r.Fail("range:bytes:"+sg, "%s %s: byte offsets %d-%d out of order or outside file %q (len %d) (the parser's own inconsistent extent, handed back)", rc.cur, what, rng.Start.Byte, rng.End.Byte, rng.Filename, len(fi.src))
			}
		} else {
			rc.r.Class("upstream-range-at:" + sigOf(what))
		}
		return
	}
	n := len(fi.src)
	if rng.Start.Byte < 0 || rng.End.Byte > n || rng.Start.Byte > rng.End.Byte {
		rc.r.Fail("range:bytes:"+sigOf(what), "%s %s: byte offsets %d-%d out of order or outside file %q (len %d)", rc.cur, what, rng.Start.Byte, rng.End.Byte, rng.Filename, n)
		return
	}
	if !fi.posModel {
		return
	}
	if p := oracle.CheckRange(what, rng, map[string][]byte{rng.Filename: fi.src}); p != nil {
		rc.r.Fail("range:linecol:"+sigOf(what), "%s %s", rc.cur, p.String())
	}
}

// sigOf strips indexes so that the signature names the kind of range, not the instance.
func sigOf(what string) string {
	out := make([]byte, 0, len(what))
	depth := 0
	for i := 0; i < len(what); i++ {
		c := what[i]
		switch {
		case c == '[':
			depth++
		case c == ']':
			depth--
		case depth == 0:
			out = append(out, c)
		}
	}
	return string(out)
}

func (rc *rangeChecker) walk(what, path string, v interface{}) {
	oracle.WalkRanges(v, nil, func(p string, r hcl.Range) {
		rc.check(what+p, path, r)
	})
}

func (rc *rangeChecker) symbols(what string, syms []decoder.Symbol) {
	for _, s := range syms {
		rc.check(what+".Range", s.Path().Path, s.Range())
		rc.symbols(what+".Nested", s.NestedSymbols())
	}
}

// result checks every range of a query result.
func (rc *rangeChecker) result(c Call, path string, val interface{}) {
	what := c.Kind
	switch v := val.(type) {
	case []decoder.Symbol:
		rc.symbols(what, v)
	case decoder.ReferenceTargets:
		for _, t := range v {
			rc.check(what+".OriginRange", path, t.OriginRange)
			rc.check(what+".Range", t.Path.Path, t.Range)
			if t.DefRangePtr != nil {
				rc.check(what+".DefRange", t.Path.Path, *t.DefRangePtr)
			}
		}
	case decoder.ReferenceOrigins:
		for _, o := range v {
			rc.check(what+".Range", o.Path.Path, o.Range)
		}
	case lang.DiagnosticsMap:
		for f, ds := range v {
			for _, d := range ds {
				if d.Subject != nil {
					rc.check(what+".Subject", path, *d.Subject)
					if d.Subject.Filename != f {
						rc.r.Fail("range:diag-file", "%s: diagnostic filed under %q has subject in %q", what, f, d.Subject.Filename)
					}
				}
				if d.Context != nil {
					rc.check(what+".Context", path, *d.Context)
				}
			}
		}
	case hcl.Diagnostics:
		for _, d := range v {
			if d.Subject != nil {
				rc.check(what+".Subject", path, *d.Subject)
			}
			if d.Context != nil {
				rc.check(what+".Context", path, *d.Context)
			}
		}
	default:
		rc.walk(what, path, val)
	}
}

func checkC02(c C02Case) Result {
	var r Result
	w, pi := SafeBuild(func() *world.World { return world.Build(c.World) })
	if pi != nil {
		r.Exclude("library-panic(C01)")
		return r
	}
	rc := newRangeChecker(w, &r)
	d := w.Decoder()
	calls := 0
	do := func(cl Call) {
		res := Exec(w, d, cl)
		calls++
		if res.Panic != nil {
			r.Exclude("library-panic(C01)")
			return
		}
		if res.Err != nil || res.Val == nil {
			return
		}
		rc.cur = cl.String()
		rc.result(cl, w.M.Paths[cl.Path].Path, res.Val)
	}
	for pi, p := range w.M.Paths {
		for _, k := range []string{"validate", "collectTargets", "collectOrigins"} {
			do(Call{Kind: k, Path: pi})
		}
		do(Call{Kind: "wsSymbols", Path: pi, Query: ""})
		for _, f := range p.Files {
			for _, k := range FileKinds {
				do(Call{Kind: k, Path: pi, File: f.Name})
			}
			for _, off := range BoundaryOffsets([]byte(f.Text), 260) {
				do(Call{Kind: "completion", Path: pi, File: f.Name, Byte: off})
				do(Call{Kind: "completion", Path: pi, File: f.Name, Byte: off, Prefill: true})
				do(Call{Kind: "hover", Path: pi, File: f.Name, Byte: off})
				do(Call{Kind: "gotoDef", Path: pi, File: f.Name, Byte: off})
				do(Call{Kind: "findRefs", Path: pi, File: f.Name, Byte: off})
			}
		}
		if len(r.Failures) > 4 {
			break
		}
	}
	r.Evals = rc.checked
	if r.Evals == 0 {
		r.Evals = 1
	}
	tainted, nomodel, multibyte := false, false, false
	for _, files := range rc.infos {
		for _, fi := range files {
			if len(fi.tainted) > 0 {
				tainted = true
			}
			if fi.native && !fi.posModel {
				nomodel = true
			}
			for _, b := range fi.src {
				if b >= 0x80 {
					multibyte = true
				}
			}
		}
	}
	if tainted {
		r.Class("has-upstream-tainted-item")
	}
	if nomodel {
		r.Exclude("position-model-not-applicable")
	}
	if multibyte {
		r.Class("multi-byte")
	}
	if rc.upstream > 0 {
		r.Exclude("upstream-range")
	}
	if len(c.World.Paths) > 1 {
		r.Class("multi-path")
	}
	// non-trivial: some emitted range was computed (not byte-identical to an AST node or token range)
	r.NonTrivial = rc.computed > 0
	if r.NonTrivial {
		r.Class("computed-ranges")
	}
	return r
}

func TestC02(t *testing.T)        { Run(t, "C02", genC02, checkC02) }
func TestReplay_C02(t *testing.T) { Replay(t, "C02", checkC02) }
