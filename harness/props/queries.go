package props

import (
	"context"
	"fmt"
	"regexp"
	"runtime/debug"
	"strings"
	"unicode/utf8"

	"github.com/hashicorp/hcl-lang/decoder"
	"github.com/hashicorp/hcl/v2"
	"github.com/hashicorp/hcl/v2/hclsyntax"

	"verif/harness/gen"
	m "verif/harness/model"
	"verif/harness/oracle"
	"verif/harness/world"
)

// Call describes one query against a world. It is plain data so that histories
// can be stored and replayed.
type Call struct {
	Kind    string `json:"kind"`
	Path    int    `json:"path"`
	File    string `json:"file,omitempty"`
	Byte    int    `json:"byte,omitempty"`
	Prefill bool   `json:"prefill,omitempty"`
	Query   string `json:"query,omitempty"`
}

func (c Call) String() string {
	return fmt.Sprintf("%s(path=%d file=%s byte=%d prefill=%v q=%q)", c.Kind, c.Path, c.File, c.Byte, c.Prefill, c.Query)
}

// Positional query kinds and whole-file / whole-path kinds.
var (
	PosKinds  = []string{"completion", "hover", "signature", "gotoDef", "findRefs"}
	FileKinds = []string{"tokens", "symbols", "links", "validateFile"}
	PathKinds = []string{"validate", "collectTargets", "collectOrigins", "writeOnly", "wsSymbols"}
)

type PanicInfo struct {
	Value string
	Stack string
	Sig   string
}

type CallResult struct {
	Val   interface{}
	Err   error
	Panic *PanicInfo
}

var numRe = regexp.MustCompile(`[0-9]+`)

// panicSig builds a stable signature: innermost hcl-lang frame + message class.
func panicSig(val interface{}, stack string) string {
	fn := "unknown"
	for _, l := range strings.Split(stack, "\n") {
		l = strings.TrimSpace(l)
		if strings.HasPrefix(l, "github.com/hashicorp/hcl-lang/") {
			fn = strings.TrimPrefix(l, "github.com/hashicorp/hcl-lang/")
			if i := strings.LastIndex(fn, "("); i > 0 {
				fn = fn[:i]
			}
			break
		}
	}
	msg := numRe.ReplaceAllString(fmt.Sprint(val), "N")
	if len(msg) > 60 {
		msg = msg[:60]
	}
	return "panic:" + fn + ":" + msg
}

// FilePos computes a self-consistent hcl.Pos for a byte offset in a file of the path.
func FilePos(w *world.World, path int, file string, off int) hcl.Pos {
	pc := w.Reader.Ctx(w.M.Paths[path].Path)
	if pc != nil {
		if f, ok := pc.Files[file]; ok && f != nil {
			return oracle.PosAt(f.Bytes, off)
		}
	}
	return hcl.Pos{Line: 1, Column: off + 1, Byte: off}
}

// Exec runs one query under recover. An error return is a normal outcome.
func Exec(w *world.World, d *decoder.Decoder, c Call) (res CallResult) {
	defer func() {
		if p := recover(); p != nil {
			st := string(debug.Stack())
			res = CallResult{Panic: &PanicInfo{Value: fmt.Sprint(p), Stack: st, Sig: panicSig(p, st)}}
			notePanic(res.Panic)
		}
	}()
	ctx := context.Background()
	lp := w.LangPath(c.Path)
	switch c.Kind {
	case "wsSymbols":
		v, err := d.Symbols(ctx, c.Query)
		return CallResult{Val: v, Err: err}
	case "gotoDef":
		v, err := d.ReferenceTargetsForOriginAtPos(lp, c.File, FilePos(w, c.Path, c.File, c.Byte))
		return CallResult{Val: v, Err: err}
	case "findRefs":
		v := d.ReferenceOriginsTargetingPos(lp, c.File, FilePos(w, c.Path, c.File, c.Byte))
		return CallResult{Val: v}
	}
	pd, err := d.Path(lp)
	if err != nil {
		return CallResult{Err: err}
	}
	pd.PrefillRequiredFields = c.Prefill
	switch c.Kind {
	case "completion":
		v, err := pd.CompletionAtPos(ctx, c.File, FilePos(w, c.Path, c.File, c.Byte))
		return CallResult{Val: v, Err: err}
	case "hover":
		v, err := pd.HoverAtPos(ctx, c.File, FilePos(w, c.Path, c.File, c.Byte))
		return CallResult{Val: v, Err: err}
	case "signature":
		v, err := pd.SignatureAtPos(c.File, FilePos(w, c.Path, c.File, c.Byte))
		return CallResult{Val: v, Err: err}
	case "tokens":
		v, err := pd.SemanticTokensInFile(ctx, c.File)
		return CallResult{Val: v, Err: err}
	case "symbols":
		v, err := pd.SymbolsInFile(c.File)
		return CallResult{Val: v, Err: err}
	case "links":
		v, err := pd.LinksInFile(c.File)
		return CallResult{Val: v, Err: err}
	case "validateFile":
		v, err := pd.ValidateFile(ctx, c.File)
		return CallResult{Val: v, Err: err}
	case "validate":
		v, err := pd.Validate(ctx)
		return CallResult{Val: v, Err: err}
	case "collectTargets":
		v, err := pd.CollectReferenceTargets()
		return CallResult{Val: v, Err: err}
	case "collectOrigins":
		v, err := pd.CollectReferenceOrigins()
		return CallResult{Val: v, Err: err}
	case "writeOnly":
		v, err := pd.CollectWriteOnlyAttributes()
		return CallResult{Val: v, Err: err}
	}
	panic("harness: unknown call kind " + c.Kind)
}

// SafeBuild builds the world and collects references under recover.
func SafeBuild(build func() *world.World) (w *world.World, pi *PanicInfo) {
	defer func() {
		if p := recover(); p != nil {
			st := string(debug.Stack())
			pi = &PanicInfo{Value: fmt.Sprint(p), Stack: st, Sig: panicSig(p, st)}
			notePanic(pi)
		}
	}()
	w = build()
	w.Collect()
	return w, nil
}

// Offsets returns the cursor offsets to query in a file: all of them for small
// files, otherwise every token boundary +-1 thinned deterministically.
func Offsets(src []byte, max int) []int {
	n := len(src)
	if n+1 <= max {
		out := make([]int, n+1)
		for i := range out {
			out[i] = i
		}
		return out
	}
	step := (n + max) / max
	seen := map[int]bool{}
	var out []int
	add := func(i int) {
		if i >= 0 && i <= n && !seen[i] {
			seen[i] = true
			out = append(out, i)
		}
	}
	for i := 0; i <= n; i += step {
		add(i)
		add(i + 1)
	}
	add(n)
	add(n - 1)
	return out
}

// BoundaryOffsets is Offsets restricted to character boundaries: an editor
// never places the cursor inside a multi-byte character, and a position that
// is not a character boundary has no well-defined column.
func BoundaryOffsets(src []byte, max int) []int {
	var out []int
	for _, o := range Offsets(src, max) {
		if o > 0 && o < len(src) && src[o-1] == '\r' && src[o] == '\n' {
			continue // inside a CRLF pair (one grapheme cluster)
		}
		if o == len(src) || utf8.RuneStart(src[o]) {
			out = append(out, o)
		}
	}
	return out
}

// GenCalls draws n query descriptors over the world, biased to token boundaries.
func GenCalls(g gen.G, w m.WorldM, n int) []Call {
	var out []Call
	type fileRef struct {
		path int
		name string
		offs []int
	}
	var files []fileRef
	for pi, p := range w.Paths {
		for _, f := range p.Files {
			fr := fileRef{path: pi, name: f.Name}
			toks, _ := hclsyntax.LexConfig([]byte(f.Text), f.Name, hcl.InitialPos)
			for _, tk := range toks {
				fr.offs = append(fr.offs, tk.Range.Start.Byte, tk.Range.End.Byte)
			}
			fr.offs = append(fr.offs, 0, len(f.Text))
			files = append(files, fr)
		}
	}
	// a window of consecutive offsets somewhere in a file: completion and hover at each
	if n >= 6 && g.Chance(60) {
		fr := files[g.Int(0, len(files)-1)]
		start := fr.offs[g.Int(0, len(fr.offs)-1)]
		for k := 0; k < 12; k++ {
			out = append(out, Call{Kind: "completion", Path: fr.path, File: fr.name, Byte: start + k},
				Call{Kind: "hover", Path: fr.path, File: fr.name, Byte: start + k})
		}
	}
	for i := 0; i < n; i++ {
		fr := files[g.Int(0, len(files)-1)]
		off := fr.offs[g.Int(0, len(fr.offs)-1)]
		if g.Chance(30) {
			off += g.Int(-1, 1)
		}
		if off < 0 {
			off = 0
		}
		var k string
		switch g.Weighted(30, 15, 5, 10, 10, 30) {
		case 0:
			k = "completion"
		case 1:
			k = "hover"
		case 2:
			k = "signature"
		case 3:
			k = gen.Pick(g, []string{"gotoDef", "findRefs"})
		case 4:
			k = gen.Pick(g, FileKinds)
		default:
			k = gen.Pick(g, PathKinds)
		}
		c := Call{Kind: k, Path: fr.path, File: fr.name, Byte: off}
		if k == "completion" {
			c.Prefill = g.Chance(30)
		}
		if k == "wsSymbols" {
			c.Query = gen.Pick(g, []string{"", "a", "b", "res", "zz"})
		}
		out = append(out, c)
	}
	return out
}
