package props

import (
	"fmt"
	"sort"
	"strings"
	"testing"

	"github.com/hashicorp/hcl-lang/decoder"
	"github.com/hashicorp/hcl-lang/reference"
	"github.com/zclconf/go-cty/cty"

	"verif/harness/gen"
	m "verif/harness/model"
	"verif/harness/world"
)

type C19Case struct {
	Schema m.BodyM        `json:"schema"`
	Items  []gen.DualItem `json:"items"`
	Layout []int          `json:"layout,omitempty"` // hand-made JSON layout (empty: regular indentation)
}

func genC19(g gen.G) C19Case {
	return C19Case{Schema: g.RefSchemaSimple(), Items: g.DualConfig(), Layout: g.Layout()}
}

func flattenAbs(ts reference.Targets, depth int, out *[]string) int {
	nested := 0
	for _, t := range ts {
		if len(t.Addr) > 0 {
			*out = append(*out, fmt.Sprintf("%s|%s|%s|depth=%d", t.Addr.String(), typeStr(t.Type), t.ScopeId, depth))
			if depth > 0 {
				nested++
			}
		}
		if depth < 10 {
			nested += flattenAbs(t.NestedTargets, depth+1, out)
		}
	}
	return nested
}

func consString(cs reference.OriginConstraints) string {
	var parts []string
	for _, c := range cs {
		parts = append(parts, fmt.Sprintf("%s/%s", c.OfScopeId, typeStr(c.OfType)))
	}
	sort.Strings(parts)
	return strings.Join(parts, ",")
}

func outline(syms []decoder.Symbol, indent string, out *[]string) {
	var lines []string
	for _, s := range syms {
		switch x := s.(type) {
		case *decoder.BlockSymbol:
			var sub []string
			outline(x.NestedSymbols(), indent+"  ", &sub)
			lines = append(lines, indent+"block "+x.Name()+"\n"+strings.Join(sub, ""))
		case *decoder.AttributeSymbol:
			lines = append(lines, indent+"attr "+x.Name()+"\n")
		}
	}
	sort.Strings(lines)
	*out = append(*out, lines...)
}

// refConstraintAttrs are the attributes of the dual schema whose constraint is a
// Reference (directly or inside one-of / list / map / object).
var refConstraintAttrs = map[string]bool{"of": true, "ofres": true, "one": true, "lst": true, "mp": true, "ob": true, "dep": true}

// escapedIndexUnderReference reports whether every address in missing (with its
// multiplicity) is a reference with a string index step - which JSON has to
// escape - written under a Reference constraint.
func escapedIndexUnderReference(items []gen.DualItem, missing []string) bool {
	under := map[string]int{}
	var walkV func(v *gen.DualValue)
	walkV = func(v *gen.DualValue) {
		if v == nil {
			return
		}
		if v.Kind == "ref" || v.Kind == "bare" {
			under[v.Ref]++
		}
		for i := range v.Elems {
			walkV(&v.Elems[i])
		}
	}
	var walk func(its []gen.DualItem)
	walk = func(its []gen.DualItem) {
		for _, it := range its {
			if it.Kind == "attr" && refConstraintAttrs[it.Name] {
				walkV(it.Value)
			}
			walk(it.Body)
		}
	}
	walk(items)
	need := map[string]int{}
	for _, a := range missing {
		if !strings.Contains(a, `["`) {
			return false
		}
		need[a]++
	}
	for a, n := range need {
		if under[a] < n {
			return false
		}
	}
	return len(missing) > 0
}

func checkC19(c C19Case) Result {
	var r Result
	mk := func(f m.FileM) (*world.World, *PanicInfo) {
		schema := c.Schema
		wm := m.WorldM{Paths: []m.PathM{{Path: "p0", Schema: &schema, Files: []m.FileM{f}}}}
		return SafeBuild(func() *world.World { return world.Build(wm) })
	}
	native := gen.RenderNative(c.Items, "")
	jsonText := gen.RenderJSONLayout(c.Items, c.Layout)
	wn, pi := mk(m.FileM{Name: "main.tf", Text: native})
	if pi != nil {
		r.Exclude("library-panic(C01)")
		return r
	}
	wj, pi := mk(m.FileM{Name: "main.tf.json", Text: jsonText, JSON: true})
	if pi != nil {
		r.Exclude("library-panic(C01)")
		return r
	}
	show := func() string { return "native:\n" + clip(native, 1200) + "\njson:\n" + clip(jsonText, 1500) }
	// ---- absolute targets: address, type, scope, nesting
	var tn, tj []string
	nestedN := flattenAbs(wn.Reader.Ctx("p0").ReferenceTargets, 0, &tn)
	flattenAbs(wj.Reader.Ctx("p0").ReferenceTargets, 0, &tj)
	sort.Strings(tn)
	sort.Strings(tj)
	r.Evals += len(tn)
	if strings.Join(tn, "\n") != strings.Join(tj, "\n") {
		onlyN, onlyJ := diffSorted(tn, tj)
		r.Fail("targets-differ", "absolute reference targets differ between native and JSON syntax\n only native: %v\n only JSON:   %v\n%s", onlyN, onlyJ, show())
	}
	// ---- origins: address, constraints up to the documented loss of precision
	type og struct{ addr, cons string }
	collect := func(w *world.World) []og {
		var out []og
		for _, o := range w.Reader.Ctx("p0").ReferenceOrigins {
			if lo, ok := o.(reference.LocalOrigin); ok {
				out = append(out, og{lo.Addr.String(), consString(lo.Constraints)})
			}
		}
		return out
	}
	on, oj := collect(wn), collect(wj)
	var an, aj []string
	consOf := map[string]map[string]bool{}
	for _, o := range on {
		an = append(an, o.addr)
		if consOf[o.addr] == nil {
			consOf[o.addr] = map[string]bool{}
		}
		consOf[o.addr][o.cons] = true
	}
	for _, o := range oj {
		aj = append(aj, o.addr)
	}
	sort.Strings(an)
	sort.Strings(aj)
	r.Evals += len(an)
	if strings.Join(an, "\n") != strings.Join(aj, "\n") {
		onlyN, onlyJ := diffSorted(an, aj)
		sig := "origins-differ"
		if len(onlyJ) == 0 && escapedIndexUnderReference(c.Items, onlyN) {
			// (a finding of its own: the existing suite pins it, see known_findings.json)
			sig = "origins-differ:json-escaped-string-index-under-reference-constraint"
		}
		r.Fail(sig, "reference origin addresses differ between native and JSON syntax\n only native: %v\n only JSON:   %v\n%s", onlyN, onlyJ, show())
	} else {
		anyType := "/" + typeStr(cty.DynamicPseudoType)
		for _, o := range oj {
			if consOf[o.addr][o.cons] || o.cons == anyType || o.cons == "" {
				continue
			}
			r.Fail("origin-constraints-differ", "origin %s: JSON constraints %q are neither the native ones %v nor the documented any-type fallback\n%s", o.addr, o.cons, consOf[o.addr], show())
		}
	}
	// ---- block / attribute outline (schema present)
	sym := func(w *world.World) []string {
		res := Exec(w, w.Decoder(), Call{Kind: "wsSymbols", Path: 0, Query: ""})
		var out []string
		if res.Panic == nil && res.Err == nil {
			outline(res.Val.([]decoder.Symbol), "", &out)
		}
		return out
	}
	sn, sj := sym(wn), sym(wj)
	r.Evals += len(sn)
	if strings.Join(sn, "") != strings.Join(sj, "") {
		r.Fail("outline-differs", "block/attribute symbol outline differs between native and JSON syntax\n native:\n%s\n json:\n%s\n%s", strings.Join(sn, ""), strings.Join(sj, ""), show())
	}
	if len(an) > 0 {
		r.Class("references")
	}
	if nestedN > 0 {
		r.Class("nested-targets")
	}
	for _, it := range c.Items {
		for _, b := range it.Body {
			if b.Value != nil && b.Value.Kind == "bare" {
				r.Class("legacy-bare-reference")
			}
		}
	}
	r.NonTrivial = len(an) > 0 && nestedN > 0
	return r
}

func TestC19(t *testing.T)        { Run(t, "C19", genC19, checkC19) }
func TestReplay_C19(t *testing.T) { Replay(t, "C19", checkC19) }
