package props

import (
	"os"
	"testing"

	"github.com/hashicorp/hcl-lang/decoder"
	"github.com/hashicorp/hcl-lang/lang"
	"github.com/hashicorp/hcl-lang/reference"
	"github.com/hashicorp/hcl/v2"
	"github.com/hashicorp/hcl/v2/hclsyntax"

	"verif/harness/gen"
	m "verif/harness/model"
	"verif/harness/world"
)

func TestMain(mm *testing.M) {
	code := mm.Run()
	FlushStats()
	os.Exit(code)
}

// TypingM describes a typing history: Text is typed character by character at
// byte offset At of file File of path Path; after every keystroke all queries run.
type TypingM struct {
	Path int    `json:"path"`
	File string `json:"file"`
	At   int    `json:"at"`
	Text string `json:"text"`
}

type C01Case struct {
	World  m.WorldM `json:"world"`
	Typing *TypingM `json:"typing,omitempty"`
}

func c01Opts() gen.WorldOpts {
	return gen.WorldOpts{
		Schema:   gen.SchemaOpts{MaxDepth: 2},
		Cfg:      gen.CfgOpts{Violations: 8, Layout: true, HalfTyped: 6},
		MaxPaths: 2, MaxFiles: 2, Faults: true, JSONFiles: true, Edits: 2, NoSchema: 4,
	}
}

func genC01(g gen.G) C01Case {
	o := c01Opts()
	if g.Chance(25) {
		o.Edits = 0
	}
	o.Schema.DepBoost = g.Chance(50)
	o.Cfg.CallHeavy = g.Chance(30)
	c := C01Case{World: g.World(o)}
	if g.Chance(12) {
		// value-centred world: deeply nested values of rich types
		c.World = g.ValueWorld(gen.CfgOpts{Typed: g.Bool(), Layout: true, HalfTyped: 6, Violations: 5, CallHeavy: g.Bool()})
	}
	if g.Chance(30) {
		p := g.Int(0, len(c.World.Paths)-1)
		f := c.World.Paths[p].Files[0]
		body := m.BodyM{}
		if c.World.Paths[p].Schema != nil {
			body = *c.World.Paths[p].Schema
		}
		frag := g.Config(body, gen.CfgOpts{Funcs: c.World.Paths[p].Funcs, Violations: 5})
		if len(frag) > 160 {
			frag = frag[:160]
		}
		at := 0
		if len(f.Text) > 0 {
			at = g.Int(0, len(f.Text))
			for at > 0 && at < len(f.Text) && f.Text[at]&0xC0 == 0x80 {
				at--
			}
		}
		c.Typing = &TypingM{Path: p, File: f.Name, At: at, Text: frag}
	}
	return c
}

// nonEmpty reports whether a query result carries any information.
func nonEmpty(v interface{}) bool {
	switch x := v.(type) {
	case lang.Candidates:
		return len(x.List) > 0
	case *lang.HoverData:
		return x != nil
	case *lang.FunctionSignature:
		return x != nil
	case []lang.SemanticToken:
		return len(x) > 0
	case []decoder.Symbol:
		return len(x) > 0
	case []lang.Link:
		return len(x) > 0
	case hcl.Diagnostics:
		return len(x) > 0
	case lang.DiagnosticsMap:
		return x.Count() > 0
	case reference.Targets:
		return len(x) > 0
	case reference.Origins:
		return len(x) > 0
	case decoder.ReferenceTargets:
		return len(x) > 0
	case decoder.ReferenceOrigins:
		return len(x) > 0
	case decoder.WriteOnlyAttributes:
		return len(x) > 0
	}
	return false
}

// runAllQueries runs every query kind over the world; cursors restricted to
// `only` (if non-nil) for the given file.
func runAllQueries(w *world.World, r *Result, maxOffsets int, onlyPath int, onlyFile string, only []int) (calls int, informative int) {
	d := w.Decoder()
	do := func(c Call) {
		res := Exec(w, d, c)
		calls++
		if res.Panic != nil {
			r.Fail(res.Panic.Sig, "%s panicked: %s\n%s", c, res.Panic.Value, res.Panic.Stack)
			return
		}
		if res.Err == nil && nonEmpty(res.Val) {
			informative++
		}
	}
	for pi, p := range w.M.Paths {
		for _, k := range PathKinds {
			do(Call{Kind: k, Path: pi, Query: ""})
		}
		do(Call{Kind: "wsSymbols", Path: pi, Query: "a"})
		for _, f := range p.Files {
			for _, k := range FileKinds {
				do(Call{Kind: k, Path: pi, File: f.Name})
			}
			offs := Offsets([]byte(f.Text), maxOffsets)
			if only != nil {
				if pi != onlyPath || f.Name != onlyFile {
					continue
				}
				offs = only
			}
			for _, off := range offs {
				do(Call{Kind: "completion", Path: pi, File: f.Name, Byte: off})
				do(Call{Kind: "completion", Path: pi, File: f.Name, Byte: off, Prefill: true})
				do(Call{Kind: "hover", Path: pi, File: f.Name, Byte: off})
				do(Call{Kind: "signature", Path: pi, File: f.Name, Byte: off})
				do(Call{Kind: "gotoDef", Path: pi, File: f.Name, Byte: off})
				do(Call{Kind: "findRefs", Path: pi, File: f.Name, Byte: off})
			}
		}
		// a file that does not exist and a position outside the file
		do(Call{Kind: "completion", Path: pi, File: "missing.tf", Byte: 0})
		if len(p.Files) > 0 {
			do(Call{Kind: "hover", Path: pi, File: p.Files[0].Name, Byte: len(p.Files[0].Text) + 5})
		}
	}
	return
}

func hasParseErrors(w m.WorldM) bool {
	for _, p := range w.Paths {
		for _, f := range p.Files {
			if !f.JSON {
				_, diags := hclsyntax.ParseConfig([]byte(f.Text), f.Name, hcl.InitialPos)
				if diags.HasErrors() {
					return true
				}
			}
		}
	}
	return false
}

func checkC01(c C01Case) Result {
	var r Result
	states := []m.WorldM{c.World}
	var cursors [][]int
	cursors = append(cursors, nil)
	if c.Typing != nil {
		t := c.Typing
		base := c.World.Paths[t.Path].Files[0].Text
		for k := 1; k <= len(t.Text); k++ {
			wm := cloneWorld(c.World)
			wm.Paths[t.Path].Files[0].Text = base[:t.At] + t.Text[:k] + base[t.At:]
			states = append(states, wm)
			cursors = append(cursors, []int{t.At + k})
		}
		r.Class("typing")
	}
	totalCalls, totalInfo := 0, 0
	for i, wm := range states {
		w, pi := SafeBuild(func() *world.World { return world.Build(wm) })
		if pi != nil {
			r.Fail(pi.Sig, "building/collecting world panicked: %s\n%s", pi.Value, pi.Stack)
			continue
		}
		max := 320
		var calls, info int
		if cursors[i] == nil {
			calls, info = runAllQueries(w, &r, max, 0, "", nil)
		} else {
			calls, info = runAllQueries(w, &r, max, c.Typing.Path, c.Typing.File, cursors[i])
		}
		totalCalls += calls
		totalInfo += info
		if len(r.Failures) > 3 {
			break
		}
	}
	r.Evals = totalCalls
	if hasParseErrors(c.World) {
		r.Class("parse-errors")
	} else {
		r.Class("parse-clean")
	}
	if len(c.World.Paths) > 1 {
		r.Class("multi-path")
	}
	for _, p := range c.World.Paths {
		if p.Schema == nil {
			r.Class("no-schema")
		}
	}
	// non-trivial: the schema actually matched the text somewhere (some query
	// returned data) and the file is broken or being typed
	r.NonTrivial = totalInfo >= 5 && (hasParseErrors(c.World) || c.Typing != nil)
	return r
}

func cloneWorld(w m.WorldM) m.WorldM {
	out := w
	out.Paths = make([]m.PathM, len(w.Paths))
	for i, p := range w.Paths {
		out.Paths[i] = p
		out.Paths[i].Files = append([]m.FileM(nil), p.Files...)
	}
	return out
}

func TestC01(t *testing.T)        { Run(t, "C01", genC01, checkC01) }
func TestReplay_C01(t *testing.T) { Replay(t, "C01", checkC01) }
