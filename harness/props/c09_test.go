package props

import (
	"fmt"
	"sort"
	"strconv"
	"strings"
	"testing"

	"github.com/hashicorp/hcl-lang/lang"
	"github.com/hashicorp/hcl/v2"
	"github.com/hashicorp/hcl-lang/reference"
	"github.com/hashicorp/hcl/v2/hclsyntax"
	"github.com/zclconf/go-cty/cty"

	"verif/harness/gen"
	m "verif/harness/model"
	"verif/harness/refmodel"
	"verif/harness/world"
)

type C09Case struct {
	World m.WorldM `json:"world"`
	// one structured configuration rendered in native and in JSON syntax (World unused): the
	// position clause (list index = source order) on both renderings
	Dual *C19Case `json:"dual,omitempty"`
}

func genC09(g gen.G) C09Case {
	o := gen.WorldOpts{
		Schema:   gen.SchemaOpts{MaxDepth: 3, NoHooks: true, AddrPct: 60, DepBoost: true},
		Cfg:      gen.CfgOpts{Violations: 8, Layout: true, Typed: true},
		MaxPaths: 1, MaxFiles: 2,
	}
	if g.Chance(20) {
		d := genC19(g)
		return C09Case{Dual: &d}
	}
	return C09Case{World: g.World(o)}
}

// checkC09Dual judges the position clause on a configuration rendered in both syntaxes: the
// nested targets x.disk[0], x.disk[1], ... of one declaration are the blocks in source order
// (their extents follow each other in the file), and disk[i].gb is the attribute written in
// the i-th block (the generator writes gb = 10+i there).
func checkC09Dual(c C19Case) Result {
	var r Result
	texts := map[string]string{"main.tf": gen.RenderNative(c.Items, ""), "main.tf.json": gen.RenderJSONLayout(c.Items, c.Layout)}
	for _, name := range []string{"main.tf", "main.tf.json"} {
		schema := c.Schema
		text := texts[name]
		wm := m.WorldM{Paths: []m.PathM{{Path: "p0", Schema: &schema, Files: []m.FileM{{Name: name, Text: text, JSON: name != "main.tf"}}}}}
		w, pi := SafeBuild(func() *world.World { return world.Build(wm) })
		if pi != nil {
			r.Exclude("library-panic(C01)")
			return r
		}
		var walk func(ts reference.Targets)
		walk = func(ts reference.Targets) {
			// siblings whose last step is a number index, by parent address
			type el struct {
				idx int
				t   reference.Target
			}
			groups := map[string][]el{}
			for _, t := range ts {
				if len(t.Addr) > 1 {
					if is, ok := t.Addr[len(t.Addr)-1].(lang.IndexStep); ok && is.Key.Type() == cty.Number && t.RangePtr != nil {
						f, _ := is.Key.AsBigFloat().Int64()
						key := t.Addr[:len(t.Addr)-1].String()
						groups[key] = append(groups[key], el{int(f), t})
					}
				}
				walk(t.NestedTargets)
			}
			for parent, els := range groups {
				sort.Slice(els, func(i, j int) bool { return els[i].idx < els[j].idx })
				r.Evals++
				if len(els) > 1 {
					r.Class("indexed-siblings:" + name[strings.Index(name, "."):])
				}
				for i, e := range els {
					if e.idx != i {
						r.Fail("dual-index-gap", "%s: nested targets of %s have indices that are not 0..n-1: %d at position %d\n%s", name, parent, e.idx, i, clip(text, 1200))
						break
					}
					if i > 0 {
						a, b := els[i-1].t.RangePtr, e.t.RangePtr
						// (starts only: JSON elements written in one array share the array's extent, and the
						// end of the first native element is the recorded finding D21)
						if b.Start.Byte < a.Start.Byte || (name == "main.tf" && b.Start.Byte == a.Start.Byte) {
							r.Fail("dual-index-not-source-order", "%s: %s[%d] (%d-%d) does not follow %s[%d] (%d-%d) in the file: list index is not source order\n%s", name, parent, i, b.Start.Byte, b.End.Byte, parent, i-1, a.Start.Byte, a.End.Byte, clip(text, 1500))
						}
					}
					// the element's gb attribute is the one written in the i-th block
					for _, nt := range e.t.NestedTargets {
						if len(nt.Addr) > 0 && nt.RangePtr != nil && nt.RangePtr.End.Byte <= len(text) && nt.RangePtr.Start.Byte >= 0 && nt.RangePtr.Start.Byte < nt.RangePtr.End.Byte {
							if as, ok := nt.Addr[len(nt.Addr)-1].(lang.AttrStep); ok && as.Name == "gb" && strings.HasSuffix(parent, ".disk") {
								if got := text[nt.RangePtr.Start.Byte:nt.RangePtr.End.Byte]; !strings.Contains(got, strconv.Itoa(10+i)) {
									r.Fail("dual-index-wrong-element", "%s: %s[%d].gb covers %q, but the %d-th disk block written declares gb = %d\n%s", name, parent, i, got, i, 10+i, clip(text, 1500))
								}
							}
						}
					}
				}
			}
		}
		walk(w.Reader.Ctx("p0").ReferenceTargets)
	}
	r.NonTrivial = len(r.Classes) > 0
	return r
}

func typeStr(t cty.Type) string {
	if t == cty.NilType {
		return "nil"
	}
	return t.GoString()
}

func tgtString(t reference.Target) string {
	s := fmt.Sprintf("addr=%s local=%s scope=%q type=%s", t.Addr.String(), t.LocalAddr.String(), t.ScopeId, typeStr(t.Type))
	if t.RangePtr != nil {
		s += fmt.Sprintf(" range=%s:%d-%d", t.RangePtr.Filename, t.RangePtr.Start.Byte, t.RangePtr.End.Byte)
	}
	if t.DefRangePtr != nil {
		s += fmt.Sprintf(" def=%d-%d", t.DefRangePtr.Start.Byte, t.DefRangePtr.End.Byte)
	}
	return s
}

func lastStepExtends(parent, child lang.Address) bool {
	if len(child) != len(parent)+1 {
		return false
	}
	for i := range parent {
		if parent[i].String() != child[i].String() {
			return false
		}
	}
	return true
}

// checkNested verifies the structural rules of nested targets below t.
func checkNested(r *Result, t reference.Target, fname string, strictInside bool, depth int, selfAddr func(s, e int) bool) {
	type idx struct {
		n     int64
		start int
	}
	var idxs []idx
	for _, n := range t.NestedTargets {
		if n.RangePtr != nil && n.Type == cty.NilType && n.DefRangePtr == nil && selfAddr(n.RangePtr.Start.Byte, n.RangePtr.End.Byte) {
			// a self-addressing reference (Reference constraint with Address) written inside an
			// inferred body: the written traversal is the target, its address is its own
			continue
		}
		if len(t.Addr) > 0 && !lastStepExtends(t.Addr, n.Addr) {
			r.Fail("nested-address", "nested target %q does not extend its parent %q by exactly one step", n.Addr.String(), t.Addr.String())
		}
		if len(t.LocalAddr) > 0 && len(n.LocalAddr) > 0 && !lastStepExtends(t.LocalAddr, n.LocalAddr) {
			r.Fail("nested-local-address", "nested target local address %q does not extend its parent's %q by exactly one step", n.LocalAddr.String(), t.LocalAddr.String())
		}
		aggregate := n.Type != cty.NilType && (n.Type.IsListType() || n.Type.IsSetType() || n.Type.IsMapType()) && n.DefRangePtr == nil
		if strictInside && !aggregate && n.RangePtr != nil && t.RangePtr != nil && n.RangePtr.Filename == fname && n.RangePtr.Start.Byte != n.RangePtr.End.Byte {
			if n.RangePtr.Start.Byte < t.RangePtr.Start.Byte || n.RangePtr.End.Byte > t.RangePtr.End.Byte {
				r.Fail("nested-range-outside-parent", "nested target %q (%d-%d) lies outside its parent %q (%d-%d)", n.Addr.String(), n.RangePtr.Start.Byte, n.RangePtr.End.Byte, t.Addr.String(), t.RangePtr.Start.Byte, t.RangePtr.End.Byte)
			}
		}
		if len(n.Addr) > 0 {
			// (elements the type declares but the value does not write carry an empty range)
			if is, ok := n.Addr[len(n.Addr)-1].(lang.IndexStep); ok && is.Key.Type() == cty.Number && n.RangePtr != nil && n.RangePtr.Start.Byte != n.RangePtr.End.Byte {
				i, _ := is.Key.AsBigFloat().Int64()
				idxs = append(idxs, idx{i, n.RangePtr.Start.Byte})
			}
		}
		if depth < 6 {
			checkNested(r, n, fname, strictInside, depth+1, selfAddr)
		}
	}
	// list index = source order
	sort.Slice(idxs, func(i, j int) bool { return idxs[i].n < idxs[j].n })
	for i := range idxs {
		// (elements that are not literals, e.g. references, yield no target: gaps are fine)
		if i > 0 && idxs[i].n == idxs[i-1].n {
			r.Fail("nested-index-duplicate", "two list elements of %q share index %d", t.Addr.String(), idxs[i].n)
			break
		}
		if i > 0 && idxs[i].start < idxs[i-1].start {
			r.Fail("nested-index-order", "list element indexes of %q do not follow source order: %v", t.Addr.String(), idxs)
			break
		}
	}
}

func checkC09(c C09Case) Result {
	if c.Dual != nil {
		return checkC09Dual(*c.Dual)
	}
	var r Result
	w, pi := SafeBuild(func() *world.World { return world.Build(c.World) })
	if pi != nil {
		r.Exclude("library-panic(C01)")
		return r
	}
	d := w.Decoder()
	for pi, p := range c.World.Paths {
		if p.Schema == nil {
			continue
		}
		pc := w.Reader.Ctx(p.Path)
		res := Exec(w, d, Call{Kind: "collectTargets", Path: pi})
		if res.Panic != nil || res.Err != nil {
			r.Exclude("library-panic(C01)")
			continue
		}
		all := res.Val.(reference.Targets)
		for _, f := range p.Files {
			hf := pc.Files[f.Name]
			body, ok := hf.Body.(*hclsyntax.Body)
			if !ok {
				continue
			}
			fi := analyseFile(f.Name, hf)
			if len(fi.tainted) > 0 {
				r.Exclude("upstream-tainted-file")
				continue
			}
			// every declaration's own extent, keyed by its header / name range
			extents := map[[2]int][2]int{}
			var collectExtents func(b *hclsyntax.Body)
			collectExtents = func(b *hclsyntax.Body) {
				for _, a := range b.Attributes {
					extents[[2]int{a.NameRange.Start.Byte, a.NameRange.End.Byte}] = [2]int{a.SrcRange.Start.Byte, a.SrcRange.End.Byte}
				}
				for _, bl := range b.Blocks {
					dr, rg := bl.DefRange(), bl.Range()
					extents[[2]int{dr.Start.Byte, dr.End.Byte}] = [2]int{rg.Start.Byte, rg.End.Byte}
					if bl.Body != nil {
						collectExtents(bl.Body)
					}
				}
			}
			collectExtents(body)
			// the items of object / map constructors: key extent and the end of the value
			type consItem struct{ ks, ke, ve int }
			var consItems []consItem
			_ = hclsyntax.VisitAll(body, func(n hclsyntax.Node) hcl.Diagnostics {
				if oc, ok := n.(*hclsyntax.ObjectConsExpr); ok {
					for _, it := range oc.Items {
						kr, vr := it.KeyExpr.Range(), it.ValueExpr.Range()
						if kr.End.Byte > kr.Start.Byte && vr.End.Byte >= kr.End.Byte {
							consItems = append(consItems, consItem{kr.Start.Byte, kr.End.Byte, vr.End.Byte})
						}
					}
				}
				return nil
			})
			checkItemExtent := func(t reference.Target) {
				if t.DefRangePtr == nil || t.RangePtr == nil || t.RangePtr.Filename != f.Name || t.DefRangePtr.Filename != f.Name {
					return
				}
				for _, it := range consItems {
					// a target that ends with an item's value and whose header lies within that item's key
					// is that item: its extent starts with the key as written (quotes included) and its
					// header is the whole key
					if t.RangePtr.End.Byte == it.ve && t.DefRangePtr.Start.Byte >= it.ks && t.DefRangePtr.End.Byte <= it.ke && t.RangePtr.Start.Byte >= it.ks && t.RangePtr.Start.Byte <= it.ke {
						r.Class("constructor-item-target")
						if t.RangePtr.Start.Byte != it.ks || t.DefRangePtr.Start.Byte != it.ks || t.DefRangePtr.End.Byte != it.ke {
							r.Fail("item-target-not-own-extent", "target %s: it is the constructor item whose key is written at %d-%d (value ends at %d), but its definition range is %d-%d and its range starts at %d\n%s",
								tgtString(t), it.ks, it.ke, it.ve, t.DefRangePtr.Start.Byte, t.DefRangePtr.End.Byte, t.RangePtr.Start.Byte, clip(f.Text, 1200))
						}
						return
					}
				}
			}
			var checkExtent func(t reference.Target, depth int, firstOfGroup bool)
			checkExtent = func(t reference.Target, depth int, firstOfGroup bool) {
				checkItemExtent(t)
				if t.DefRangePtr != nil && t.RangePtr != nil && t.RangePtr.Filename == f.Name {
					if want, ok := extents[[2]int{t.DefRangePtr.Start.Byte, t.DefRangePtr.End.Byte}]; ok {
						if want != [2]int{t.RangePtr.Start.Byte, t.RangePtr.End.Byte} {
							sig := "target-range-not-own-extent"
							if firstOfGroup && t.RangePtr.Start.Byte == want[0] && t.RangePtr.End.Byte > want[1] {
								// known finding D21: the first element of a list/map block group shares its
								// range pointer with the group, whose range is stretched over later blocks
								sig = "target-range-not-own-extent:first-block-group-element-stretched"
							}
							r.Fail(sig, "target %s: its definition range is the header/name at %d-%d, whose declaration spans %d-%d, but the target's range is %d-%d\n%s",
								tgtString(t), t.DefRangePtr.Start.Byte, t.DefRangePtr.End.Byte, want[0], want[1], t.RangePtr.Start.Byte, t.RangePtr.End.Byte, clip(f.Text, 1200))
						}
					}
				}
				if depth < 8 {
					group := t.DefRangePtr == nil && t.Type != cty.NilType && (t.Type.IsListType() || t.Type.IsMapType())
					for _, n := range t.NestedTargets {
						// the group's range starts at its first block (in source order)
						first := group && t.RangePtr != nil && n.RangePtr != nil && n.RangePtr.Start.Byte == t.RangePtr.Start.Byte
						checkExtent(n, depth+1, first)
					}
				}
			}
			tm := refmodel.ExpectedTargets(p.Schema, body)
			for cl := range tm.Classes {
				r.Class(cl)
			}
			var actual []reference.Target
			for _, t := range all {
				if t.RangePtr != nil && t.RangePtr.Filename == f.Name {
					actual = append(actual, t)
				}
			}
			inIgnore := func(s, e int) bool {
				for _, rg := range tm.Ignore {
					if s >= rg.Start && e <= rg.End {
						return true
					}
				}
				return false
			}
			// ---- completeness: every addressable declaration yields its target
			for _, et := range tm.Expected {
				if inIgnore(et.Start, et.End) {
					continue
				}
				r.Evals++
				found := false
				var sameRange []string
				for _, t := range actual {
					if t.RangePtr.Start.Byte != et.Start || t.RangePtr.End.Byte != et.End {
						continue
					}
					sameRange = append(sameRange, tgtString(t))
					if t.Addr.String() != et.Addr || t.LocalAddr.String() != et.Local {
						if !(et.Kind == "block:bodyAsData" || et.Kind == "block:depBodyAsData") || t.Addr.String() != et.Addr {
							continue
						}
					}
					if et.Kind != "local" && string(t.ScopeId) != et.Scope {
						continue
					}
					if et.Type != "" && typeStr(t.Type) != et.Type {
						continue
					}
					if et.Type == "" && t.Type == cty.NilType {
						continue
					}
					if et.NoDef {
						if t.DefRangePtr != nil {
							continue
						}
					} else if t.DefRangePtr == nil || t.DefRangePtr.Start.Byte != et.DefStart || t.DefRangePtr.End.Byte != et.DefEnd {
						continue
					}
					found = true
					break
				}
				if !found {
					r.Fail("target-missing:"+et.Kind, "expected target not collected: %s\n targets with that range: %v\n file:\n%s", et, sameRange, clip(f.Text, 1200))
				}
			}
			// ---- soundness: every collected target is explained by an addressable declaration
			for _, t := range actual {
				s, e := t.RangePtr.Start.Byte, t.RangePtr.End.Byte
				if inIgnore(s, e) {
					continue
				}
				if len(t.Addr) == 0 && len(t.LocalAddr) == 0 {
					// addressable item whose declared steps resolve to nothing (empty
					// Steps): a target without any address can never be referenced
					r.Exclude("dontcare:target-without-address")
					continue
				}
				r.Evals++
				forbidden := false
				for _, rg := range tm.Forbidden {
					if s >= rg.Start && e <= rg.End {
						forbidden = true
					}
				}
				if forbidden {
					r.Fail("target-for-unknown-item", "a target was collected for an item unknown to the schema: %s\n%s", tgtString(t), clip(f.Text, 1200))
					continue
				}
				explained, addrOK := false, false
				strict := false
				for _, src := range tm.Sources {
					switch src.Kind {
					case "selfaddr":
						if s >= src.Region.Start && e <= src.Region.End {
							explained, addrOK = true, true
						}
					default:
						if s == src.Region.Start && e == src.Region.End {
							explained = true
							if src.Addr == "*" || t.Addr.String() == src.Addr || (len(t.Addr) == 0 && len(t.LocalAddr) > 0) {
								addrOK = true
							}
							if src.Kind == "attr" {
								strict = true
							}
						}
					}
				}
				if !explained {
					r.Fail("target-unexplained", "collected target does not correspond to any addressable declaration of the schema: %s\n%s", tgtString(t), clip(f.Text, 1200))
					continue
				}
				if !addrOK {
					r.Fail("target-address", "collected target's address is not the one built from the declared steps: %s\n%s", tgtString(t), clip(f.Text, 1200))
				}
				if len(t.NestedTargets) > 0 {
					r.Class("nested-targets")
				}
				checkNested(&r, t, f.Name, strict, 0, func(s, e int) bool {
					for _, src := range tm.Sources {
						if src.Kind == "selfaddr" && s >= src.Region.Start && e <= src.Region.End {
							return true
						}
					}
					// (inside an undetermined region - a dynamic block, an unresolvable dependent body -
					// the model names no sources; a type-less, definition-less target there is such a reference too)
					return inIgnore(s, e)
				})
				checkExtent(t, 0, false)
			}
			if len(r.Failures) > 5 {
				return r
			}
		}
	}
	r.NonTrivial = len(r.Classes) >= 2
	return r
}

var _ = strings.Join

func TestC09(t *testing.T)        { Run(t, "C09", genC09, checkC09) }
func TestReplay_C09(t *testing.T) { Replay(t, "C09", checkC09) }
