package props

import (
	"encoding/json"
	"fmt"
	"strings"
	"sync"
	"testing"

	"github.com/hashicorp/hcl-lang/lang"
	"github.com/hashicorp/hcl/v2"
	"github.com/hashicorp/hcl/v2/hclsyntax"
	"github.com/zclconf/go-cty/cty"
	"pgregory.net/rapid"

	"verif/harness/gen"
	m "verif/harness/model"
	"verif/harness/world"
)

var dyn = cty.DynamicPseudoType

// Native coverage-guided fuzz targets (thorough tier). The input is raw file
// content plus a selector into a fixed pool of schemas; the semantic oracle of
// the property runs inside the target, and a failure is written as an ordinary
// JSON replay case of that property.

var (
	poolOnce sync.Once
	pool     []m.PathM
)

func schemaPool() []m.PathM {
	poolOnce.Do(func() {
		// a Terraform-like schema in which references resolve ...
		refW := rapid.Custom(func(t *rapid.T) m.WorldM { return gen.G{T: t}.RefWorld(1, false) }).Example(7)
		pool = append(pool, refW.Paths[0])
		// ... and generated kitchen-sink schemas (fixed seeds: the pool is the same in every run)
		for seed := 1; seed <= 15; seed++ {
			w := rapid.Custom(func(t *rapid.T) m.WorldM {
				return gen.G{T: t}.World(gen.WorldOpts{Schema: gen.SchemaOpts{MaxDepth: 2}, Cfg: gen.CfgOpts{Layout: true}, MaxPaths: 1, MaxFiles: 1})
			}).Example(seed)
			pool = append(pool, w.Paths[0])
		}
	})
	return pool
}

func fuzzSeeds(f *testing.F) {
	for i, p := range schemaPool() {
		if len(p.Files) > 0 && len(p.Files[0].Text) < 1500 {
			f.Add([]byte(p.Files[0].Text), byte(i))
		}
	}
	for _, s := range []string{"", "a", "a = ", "a = [", "a = {\n", "blk \"", "x = provider::aws::fo", "x = f(1, ", "x = \"${", "x = var.a[", "a = true ? ", "b {\n  c = 1\n", "\xff\xfe", "a = \"é\"\r\n", "x = <<EOT\n  ${var.a}\nEOT\n", "x = [for k, v in var.a : k => v]", "a = 1 b = 2", "= 1", "{", "}", "a = .", "a = var.", "res \"aws\" \"a\" {\n  name = self.\n}\n"} {
		f.Add([]byte(s), byte(0))
		f.Add([]byte(s), byte(3))
	}
}

func fuzzWorld(data []byte, sel byte) m.WorldM {
	ps := schemaPool()
	p := ps[int(sel)%len(ps)]
	if len(data) > 2048 {
		data = data[:2048]
	}
	p.Files = []m.FileM{{Name: "main.tf", Text: string(data)}}
	return m.WorldM{Paths: []m.PathM{p}}
}

func fuzzReport(t *testing.T, id string, c interface{}, r Result) {
	var real []Failure
	for _, f := range r.Failures {
		if !isKnown(id, f) {
			real = append(real, f)
		}
	}
	if len(real) == 0 {
		return
	}
	b, _ := json.Marshal(c)
	writeFailCase(id, b, real)
	msgs := make([]string, 0, len(real))
	for _, f := range real {
		msgs = append(msgs, "["+f.Sig+"] "+clip(f.Msg, 1500))
	}
	t.Fatalf("property %s violated:\n%s", id, strings.Join(msgs, "\n"))
}

func FuzzC01(f *testing.F) {
	fuzzSeeds(f)
	f.Fuzz(func(t *testing.T, data []byte, sel byte) {
		c := C01Case{World: fuzzWorld(data, sel)}
		r, bug := safeCheck("C01", c, checkC01)
		if bug != "" {
			t.Skip("harness: " + bug)
		}
		fuzzReport(t, "C01", c, r)
	})
}

func FuzzC02(f *testing.F) {
	fuzzSeeds(f)
	f.Fuzz(func(t *testing.T, data []byte, sel byte) {
		c := C02Case{World: fuzzWorld(data, sel)}
		r, bug := safeCheck("C02", c, checkC02)
		if bug != "" {
			t.Skip("harness: " + bug)
		}
		fuzzReport(t, "C02", c, r)
	})
}

func FuzzC06(f *testing.F) {
	fuzzSeeds(f)
	f.Fuzz(func(t *testing.T, data []byte, sel byte) {
		c := C06Case{World: fuzzWorld(data, sel)}
		r, bug := safeCheck("C06", c, checkC06)
		if bug != "" {
			t.Skip("harness: " + bug)
		}
		fuzzReport(t, "C06", c, r)
	})
}

func FuzzC12(f *testing.F) {
	fuzzSeeds(f)
	f.Fuzz(func(t *testing.T, data []byte, sel byte) {
		c := C12Case{World: fuzzWorld(data, sel)}
		r, bug := safeCheck("C12", c, checkC12)
		if bug != "" {
			t.Skip("harness: " + bug)
		}
		fuzzReport(t, "C12", c, r)
	})
}

func FuzzC13(f *testing.F) {
	fuzzSeeds(f)
	f.Fuzz(func(t *testing.T, data []byte, sel byte) {
		c := C13Case{World: fuzzWorld(data, sel)}
		r, bug := safeCheck("C13", c, checkC13)
		if bug != "" {
			t.Skip("harness: " + bug)
		}
		fuzzReport(t, "C13", c, r)
	})
}

func FuzzC20(f *testing.F) {
	f.Add("x = f(1, g(2), \"a,b\")\n", -1)
	f.Add("x = join(\"a\", [1, 2], zero())\n", 12)
	f.Add("x = f(f(\"a\",))\n", -1)
	f.Fuzz(func(t *testing.T, text string, cut int) {
		// calls are recognised from the text by the harness's own scanner only when the
		// generator wrote them; for raw text only the always-valid clauses are checked
		c := C20Case{Funcs: map[string]m.FuncM{
			"f":    {Params: []m.ParamM{{Name: "p0", Ty: m.TyOf(dyn)}}, Ret: m.TyOf(dyn)},
			"g":    {Params: []m.ParamM{{Name: "p0", Ty: m.TyOf(dyn)}, {Name: "p1", Ty: m.TyOf(dyn)}}, Ret: m.TyOf(dyn)},
			"join": {Params: []m.ParamM{{Name: "sep", Ty: m.TyOf(dyn)}}, VarParam: &m.ParamM{Name: "rest", Ty: m.TyOf(dyn)}, Ret: m.TyOf(dyn)},
			"zero": {Ret: m.TyOf(dyn)},
		}, Text: text, Cut: cut}
		if len(text) > 1024 {
			return
		}
		r, bug := safeCheck("C20", c, checkC20Raw)
		if bug != "" {
			t.Skip("harness: " + bug)
		}
		fuzzReport(t, "C20", c, r)
	})
}

// checkC20Raw checks, on arbitrary text, the clauses of C20 that need no
// generator annotations: a returned signature belongs to a known function, lists
// fixed ++ variadic parameters, has a valid active index, and the parser's AST
// has a call of that function whose extent contains the cursor.
func checkC20Raw(c C20Case) Result {
	var r Result
	text := c.Text
	if c.Cut >= 0 && c.Cut < len(text) {
		text = text[:c.Cut]
	}
	root := m.BodyM{Attrs: map[string]m.AttrM{"x": {Flag: "optional", Cons: m.ConsM{K: "any", Ty: m.TyOf(dyn)}}}}
	wm := m.WorldM{Paths: []m.PathM{{Path: "p0", Schema: &root, Funcs: c.Funcs, Files: []m.FileM{{Name: "main.tf", Text: text}}}}}
	w, pi := SafeBuild(func() *world.World { return world.Build(wm) })
	if pi != nil {
		return r
	}
	hf, _ := hclsyntax.ParseConfig([]byte(text), "main.tf", hcl.InitialPos)
	type callSpan struct {
		name       string
		start, end int
	}
	var calls []callSpan
	if body, ok := hf.Body.(*hclsyntax.Body); ok {
		_ = hclsyntax.VisitAll(body, func(n hclsyntax.Node) hcl.Diagnostics {
			if fc, ok := n.(*hclsyntax.FunctionCallExpr); ok {
				calls = append(calls, callSpan{fc.Name, fc.NameRange.Start.Byte, fc.Range().End.Byte})
			}
			return nil
		})
	}
	d := w.Decoder()
	for off := 0; off <= len(text); off++ {
		if off < len(text) && text[off]&0xC0 == 0x80 {
			continue
		}
		res := Exec(w, d, Call{Kind: "signature", Path: 0, File: "main.tf", Byte: off})
		if res.Panic != nil || res.Err != nil {
			continue
		}
		r.Evals++
		sig, _ := res.Val.(*lang.FunctionSignature)
		if sig == nil {
			continue
		}
		r.NonTrivial = true
		fname := strings.SplitN(sig.Name, "(", 2)[0]
		f, known := c.Funcs[fname]
		if !known {
			r.Fail("sig:unknown-function", "offset %d in %q: signature %q is not of a known function", off, text, sig.Name)
			continue
		}
		if len(sig.Parameters) > 0 && int(sig.ActiveParameter) >= len(sig.Parameters) {
			r.Fail("sig:active-out-of-range", "offset %d in %q: active parameter %d of %d", off, text, sig.ActiveParameter, len(sig.Parameters))
		}
		var got []string
		for _, p := range sig.Parameters {
			got = append(got, p.Name)
		}
		if want := paramNames(f); strings.Join(got, ",") != strings.Join(want, ",") {
			r.Fail("sig:parameters", "offset %d in %q: parameters %v, expected %v", off, text, got, want)
		}
		inside := false
		for _, cs := range calls {
			// (a call the parser could not close has an end of 0: accept from the name onwards)
			if cs.name == fname && off >= cs.start && (off <= cs.end || cs.end < cs.start) {
				inside = true
			}
		}
		if !inside {
			r.Fail("sig:not-inside-call", "offset %d in %q: signature of %q although no call of it contains the cursor (calls: %s)", off, text, fname, fmt.Sprint(calls))
		}
	}
	return r
}
