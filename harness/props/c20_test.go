package props

import (
	"fmt"
	"sort"
	"strings"
	"testing"

	"github.com/hashicorp/hcl-lang/lang"
	"github.com/hashicorp/hcl/v2"
	"github.com/hashicorp/hcl/v2/hclsyntax"
	"github.com/zclconf/go-cty/cty"

	"verif/harness/gen"
	m "verif/harness/model"
	"verif/harness/world"
)

// CallAnn is what the generator knows about one call it wrote.
type CallAnn struct {
	Name   string `json:"name"`
	Open   int    `json:"open"`   // byte offset of "("
	Close  int    `json:"close"`  // byte offset of ")"
	Commas []int  `json:"commas"` // offsets of the call's own (top-level) commas
	Slots  int    `json:"slots"`  // number of argument slots written
	Empty  bool   `json:"empty"`  // an argument slot was left empty (f(a, , b)): recovery decides
}

type C20Case struct {
	Funcs map[string]m.FuncM `json:"funcs"`
	Text  string             `json:"text"` // complete file content
	Anns  []CallAnn          `json:"anns"`
	Cut   int                `json:"cut"` // truncate the file to this length (-1: keep)
}

type sigWriter struct {
	g     gen.G
	funcs map[string]m.FuncM
	names []string
	sb    strings.Builder
	anns  []CallAnn
}

func (s *sigWriter) ws() {
	switch s.g.Weighted(66, 15, 8, 6, 5) {
	case 1:
		s.sb.WriteString(" ")
	case 2:
		s.sb.WriteString("\n    ")
	case 3:
		s.sb.WriteString("  ")
	case 4:
		// empty and blank lines between the pieces of a call
		s.sb.WriteString(gen.Pick(s.g, []string{"\n\n    ", "\n  \n    ", "\n\n\n"}))
	}
}

func (s *sigWriter) call(depth int) {
	g := s.g
	// unknown names: also ones that resemble a declared name (namespaced variants whose last
	// segment is declared, the bare last segment of a namespaced declaration, prefixes, other case)
	name := gen.Pick(g, []string{"unknownfn", "unknownfn", "ns::join", "provider::x::f", "core::g", "h", "ns::zero", "joi", "joinx", "JOIN", "ns::ns::h"})
	if g.Chance(80) {
		name = gen.Pick(g, s.names)
	}
	s.sb.WriteString(name)
	ann := CallAnn{Name: name, Open: s.sb.Len(), Close: -1}
	s.sb.WriteString("(")
	n := 0
	if f, ok := s.funcs[name]; ok {
		n = len(f.Params)
		if f.VarParam != nil {
			n += g.Int(0, 2)
		}
		switch g.Weighted(70, 15, 15) {
		case 1:
			if n > 0 {
				n--
			}
		case 2:
			n++
		}
	} else {
		n = g.Int(0, 3)
	}
	for i := 0; i < n; i++ {
		if i > 0 {
			ann.Commas = append(ann.Commas, s.sb.Len())
			s.sb.WriteString(",")
		}
		s.ws()
		if g.Chance(4) {
			ann.Empty = true // empty slot
		} else {
			s.arg(depth - 1)
			if i == n-1 && g.Chance(12) {
				s.sb.WriteString("...") // expanded final argument: still the same slot
			}
		}
		s.ws()
	}
	ann.Slots = n
	if n > 0 && g.Chance(10) {
		// trailing comma, opening one more (empty) slot
		ann.Commas = append(ann.Commas, s.sb.Len())
		s.sb.WriteString(",")
		s.ws()
	}
	if n == 0 {
		s.ws()
	}
	ann.Close = s.sb.Len()
	s.sb.WriteString(")")
	s.anns = append(s.anns, ann)
}

func (s *sigWriter) arg(depth int) {
	g := s.g
	if depth <= 0 {
		s.sb.WriteString(gen.Pick(g, []string{`"a"`, `1`, `var.a`, `true`, `"x, y"`, `"p(q"`, `"r)"`, `[1, 2]`, `{ a = 1, b = 2 }`, `local.ab[0]`, `"é,"`}))
		return
	}
	switch g.Weighted(30, 30, 8, 8, 6, 6, 6, 6) {
	case 0:
		s.arg(0)
	case 1:
		s.call(depth)
	case 2:
		s.sb.WriteString("(")
		s.call(depth)
		s.sb.WriteString(")")
	case 3:
		s.sb.WriteString(`"x${`)
		s.call(depth)
		s.sb.WriteString(`}y"`)
	case 4:
		s.call(depth)
		s.sb.WriteString(" + 2")
	case 5:
		s.sb.WriteString("true ? ")
		s.call(depth)
		s.sb.WriteString(" : 2")
	case 6:
		s.sb.WriteString("[1, ")
		s.call(depth)
		s.sb.WriteString(", 3]")
	default:
		s.sb.WriteString("{ a = ")
		s.call(depth)
		s.sb.WriteString(", b = 2 }")
	}
}

func genC20(g gen.G) C20Case {
	funcs := map[string]m.FuncM{}
	names := []string{"f", "g", "fn", "join", "ns::h", "zero"}
	for _, n := range names {
		f := m.FuncM{Ret: m.TyOf(cty.String)}
		np := g.Int(0, 3)
		if n == "zero" {
			np = 0
		}
		for j := 0; j < np; j++ {
			f.Params = append(f.Params, m.ParamM{Name: fmt.Sprintf("p%d", j), Ty: m.TyOf(cty.DynamicPseudoType)})
		}
		if n != "zero" && g.Chance(35) {
			f.VarParam = &m.ParamM{Name: "rest", Ty: m.TyOf(cty.DynamicPseudoType)}
		}
		funcs[n] = f
	}
	s := &sigWriter{g: g, funcs: funcs, names: names}
	s.sb.WriteString("x = ")
	s.call(g.Int(1, 3))
	s.sb.WriteString("\n")
	if g.Chance(30) {
		s.sb.WriteString("y = ")
		s.call(2)
		s.sb.WriteString("\n")
	}
	c := C20Case{Funcs: funcs, Text: s.sb.String(), Anns: s.anns, Cut: -1}
	if g.Chance(35) {
		c.Cut = g.Int(4, len(c.Text))
	}
	return c
}

func paramNames(f m.FuncM) []string {
	var out []string
	for _, p := range f.Params {
		out = append(out, p.Name)
	}
	if f.VarParam != nil {
		out = append(out, f.VarParam.Name)
	}
	return out
}

func checkC20(c C20Case) Result {
	var r Result
	text := c.Text
	if c.Cut >= 0 && c.Cut < len(text) {
		text = text[:c.Cut]
	}
	root := m.BodyM{Attrs: map[string]m.AttrM{
		"x": {Flag: "optional", Cons: m.ConsM{K: "any", Ty: m.TyOf(cty.DynamicPseudoType)}},
		"y": {Flag: "optional", Cons: m.ConsM{K: "any", Ty: m.TyOf(cty.DynamicPseudoType)}},
	}}
	wm := m.WorldM{Paths: []m.PathM{{Path: "p0", Schema: &root, Funcs: c.Funcs, Files: []m.FileM{{Name: "main.tf", Text: text}}}}}
	w, pi := SafeBuild(func() *world.World { return world.Build(wm) })
	if pi != nil {
		r.Exclude("library-panic(C01)")
		return r
	}
	pf, diags := hclsyntax.ParseConfig([]byte(text), "main.tf", hcl.InitialPos)
	clean := !diags.HasErrors()
	// calls the parser itself recognised completely (name, both parentheses), keyed by "(" offset:
	// in half-typed text these are the calls whose existence does not hinge on error recovery
	closedInAST := map[int]int{}
	if body, ok := pf.Body.(*hclsyntax.Body); ok {
		_ = hclsyntax.VisitAll(body, func(n hclsyntax.Node) hcl.Diagnostics {
			if fc, ok := n.(*hclsyntax.FunctionCallExpr); ok && fc.CloseParenRange.Start.Byte > fc.OpenParenRange.Start.Byte {
				closedInAST[fc.OpenParenRange.Start.Byte] = fc.CloseParenRange.Start.Byte
			}
			return nil
		})
	}
	// calls as the generator wrote them (restricted to what survives truncation)
	var anns []CallAnn
	for _, a := range c.Anns {
		if a.Open < len(text) {
			if a.Close >= len(text) {
				a.Close = -1
			}
			anns = append(anns, a)
		}
	}
	d := w.Decoder()
	deep := false
	for off := 0; off <= len(text); off++ {
		if off < len(text) && text[off]&0xC0 == 0x80 {
			continue
		}
		res := Exec(w, d, Call{Kind: "signature", Path: 0, File: "main.tf", Byte: off})
		if res.Panic != nil {
			r.Exclude("library-panic(C01)")
			continue
		}
		if res.Err != nil {
			continue
		}
		r.Evals++
		sig, _ := res.Val.(*lang.FunctionSignature)
		// enclosing calls by annotation: cursor after "(" and not after ")"
		var enclosing []CallAnn
		for _, a := range anns {
			if off > a.Open && (a.Close < 0 || off <= a.Close) {
				enclosing = append(enclosing, a)
			}
		}
		sort.Slice(enclosing, func(i, j int) bool { return enclosing[i].Open > enclosing[j].Open }) // innermost first
		var innermostKnown *CallAnn
		for i := range enclosing {
			if _, ok := c.Funcs[enclosing[i].Name]; ok {
				innermostKnown = &enclosing[i]
				break
			}
		}
		if len(enclosing) >= 2 {
			deep = true
		}
		atOpenParen := false
		onZeroArgCall := false
		for _, a := range anns {
			if off == a.Open {
				atOpenParen = true
			}
			if f, ok := c.Funcs[a.Name]; ok && len(f.Params) == 0 && f.VarParam == nil &&
				off >= a.Open-len(a.Name) && (a.Close < 0 || off <= a.Close+1) {
				onZeroArgCall = true
			}
		}
		if sig != nil {
			// ---- soundness: whatever is returned must be the model's answer
			if len(sig.Parameters) > 0 && int(sig.ActiveParameter) >= len(sig.Parameters) {
				r.Fail("sig:active-out-of-range", "offset %d in %q: active parameter %d of %d parameters", off, text, sig.ActiveParameter, len(sig.Parameters))
				continue
			}
			fname := strings.SplitN(sig.Name, "(", 2)[0]
			f, known := c.Funcs[fname]
			if !known {
				r.Fail("sig:unknown-function", "offset %d in %q: signature %q is not of a known function", off, text, sig.Name)
				continue
			}
			if len(f.Params) == 0 && f.VarParam == nil {
				if !onZeroArgCall && !atOpenParen {
					r.Fail("sig:zero-arg-not-on-call", "offset %d in %q: signature of parameterless %q although the cursor is not on such a call", off, text, fname)
				}
				continue
			}
			want := paramNames(f)
			var got []string
			for _, p := range sig.Parameters {
				got = append(got, p.Name)
			}
			if strings.Join(got, ",") != strings.Join(want, ",") {
				r.Fail("sig:parameters", "offset %d in %q: parameters %v, expected %v (fixed parameters followed by the variadic one)", off, text, got, want)
				continue
			}
			if atOpenParen {
				r.Exclude("dontcare:cursor-at-open-paren")
				continue
			}
			if innermostKnown == nil {
				r.Fail("sig:not-inside-call", "offset %d in %q: signature %q returned although the cursor is not inside the parentheses of a known call", off, text, sig.Name)
				continue
			}
			if !clean {
				// half-typed text: the parser's recovery decides which calls exist;
				// only require that the function encloses the cursor
				ok := false
				for _, e := range enclosing {
					if e.Name == fname {
						ok = true
					}
				}
				if !ok {
					r.Fail("sig:not-enclosing", "offset %d in %q: signature of %q which does not enclose the cursor", off, text, fname)
				}
				continue
			}
			if innermostKnown.Name != fname {
				r.Fail("sig:not-innermost", "offset %d in %q: signature of %q, but the innermost enclosing known call is %q", off, text, fname, innermostKnown.Name)
				continue
			}
			if innermostKnown.Empty {
				r.Exclude("dontcare:empty-argument-slot")
				continue
			}
			idx := 0
			for _, cm := range innermostKnown.Commas {
				if cm < off {
					idx++
				}
			}
			total := len(want)
			if idx >= total {
				if f.VarParam == nil {
					r.Fail("sig:too-many-args", "offset %d in %q: cursor is in argument slot %d of %q which has %d parameters and no variadic one, yet a signature is returned", off, text, idx, fname, total)
					continue
				}
				idx = total - 1
			}
			if int(sig.ActiveParameter) != idx {
				r.Fail("sig:active-parameter", "offset %d in %q: active parameter %d, expected %d (commas typed to the left of the cursor in the innermost call %q)", off, text, sig.ActiveParameter, idx, fname)
			}
			continue
		}
		// ---- completeness: only for parse-clean text, cursor strictly inside the parentheses
		if clean && innermostKnown != nil && !innermostKnown.Empty && innermostKnown.Close >= 0 {
			f := c.Funcs[innermostKnown.Name]
			total := len(paramNames(f))
			idx := 0
			for _, cm := range innermostKnown.Commas {
				if cm < off {
					idx++
				}
			}
			if total == 0 {
				r.Fail("sig:missing-zero-arg", "offset %d in %q: no signature on the call of the known parameterless function %q", off, text, innermostKnown.Name)
			} else if idx < total || f.VarParam != nil {
				r.Fail("sig:missing", "offset %d in %q: no signature although the cursor is in argument slot %d of the known call %q", off, text, idx, innermostKnown.Name)
			}
		}
		// ---- completeness in half-typed text: a call that is itself complete (the parser has it with
		// both parentheses) inside something unfinished still gets its signature
		if !clean && innermostKnown != nil && !innermostKnown.Empty && innermostKnown.Close >= 0 && closedInAST[innermostKnown.Open] == innermostKnown.Close &&
			enclosing[0].Open == innermostKnown.Open { // (directly in its argument list, not inside an unknown or broken call nested in it)
			f := c.Funcs[innermostKnown.Name]
			total := len(paramNames(f))
			idx := 0
			for _, cm := range innermostKnown.Commas {
				if cm < off {
					idx++
				}
			}
			if total > 0 && (idx < total || f.VarParam != nil) {
				r.Class("complete-call-in-unfinished-text")
				r.Fail("sig:missing-in-unfinished-text", "offset %d in %q: no signature although the cursor is in argument slot %d of the complete known call %q (only the text around it is unfinished)", off, text, idx, innermostKnown.Name)
			}
		}
		if len(r.Failures) > 5 {
			break
		}
	}
	if clean {
		r.Class("parse-clean")
	} else {
		r.Class("half-typed")
	}
	if deep {
		r.Class("nested-calls")
	}
	multi := false
	for _, a := range anns {
		if a.Slots >= 2 {
			if _, ok := c.Funcs[a.Name]; ok {
				multi = true
			}
		}
	}
	r.NonTrivial = multi || deep
	return r
}

func TestC20(t *testing.T)        { Run(t, "C20", genC20, checkC20) }
func TestReplay_C20(t *testing.T) { Replay(t, "C20", checkC20) }
