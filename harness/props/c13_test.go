package props

import (
	"sort"
	"strings"
	"testing"

	"github.com/hashicorp/hcl-lang/lang"
	"github.com/hashicorp/hcl/v2"
	"github.com/hashicorp/hcl/v2/hclsyntax"

	"verif/harness/gen"
	m "verif/harness/model"
	"verif/harness/refmodel"
	"verif/harness/world"
)

type C13Case struct {
	World m.WorldM `json:"world"`
}

func genC13(g gen.G) C13Case {
	o := gen.WorldOpts{
		Schema:   gen.SchemaOpts{MaxDepth: 3, NoHooks: true, AddrPct: 40},
		Cfg:      gen.CfgOpts{Violations: 10, Layout: true, HalfTyped: 3},
		MaxPaths: 1, MaxFiles: 2, Edits: 2,
	}
	if g.Chance(60) {
		o.Edits = 0
	}
	if g.Chance(40) {
		// well-typed, parse-clean values: the exact value-token model applies to most of them
		o.Cfg.Typed, o.Cfg.HalfTyped, o.Edits = true, 0, 0
	}
	if g.Chance(25) {
		// value-centred world: rich any-expression attributes, nested values, resolving references
		return C13Case{World: g.ValueWorld(gen.CfgOpts{Typed: true, Layout: g.Chance(30)})}
	}
	return C13Case{World: g.World(o)}
}

func toTok(t lang.SemanticToken) refmodel.Tok {
	ms := make([]string, len(t.Modifiers))
	for i, x := range t.Modifiers {
		ms[i] = string(x)
	}
	return refmodel.Tok{Type: string(t.Type), Start: t.Range.Start.Byte, End: t.Range.End.Byte, Mods: strings.Join(ms, ",")}
}

var structuralTypes = map[string]bool{"hcl-attrName": true, "hcl-blockType": true, "hcl-blockLabel": true}

func inRegions(rs []refmodel.Region, s, e int) bool {
	for _, r := range rs {
		if s >= r.Start && e <= r.End {
			return true
		}
	}
	return false
}

func checkC13(c C13Case) Result {
	var r Result
	w, pi := SafeBuild(func() *world.World { return world.Build(c.World) })
	if pi != nil {
		r.Exclude("library-panic(C01)")
		return r
	}
	d := w.Decoder()
	supported := map[string]bool{}
	for _, t := range lang.SupportedSemanticTokenTypes {
		supported[string(t)] = true
	}
	valueTokens := 0
	for pi, p := range c.World.Paths {
		pc := w.Reader.Ctx(p.Path)
		for _, f := range p.Files {
			hf := pc.Files[f.Name]
			body, ok := hf.Body.(*hclsyntax.Body)
			if !ok {
				continue
			}
			cl := Call{Kind: "tokens", Path: pi, File: f.Name}
			res := Exec(w, d, cl)
			if res.Panic != nil {
				r.Exclude("library-panic(C01)")
				continue
			}
			if res.Err != nil {
				continue
			}
			toks := res.Val.([]lang.SemanticToken)
			r.Evals++
			fi := analyseFile(f.Name, hf)
			// empty branches of template directives ("%{if c}%{else}x%{endif}") are empty string templates
			emptyTemplates := map[int]bool{}
			_ = hclsyntax.VisitAll(body, func(n hclsyntax.Node) hcl.Diagnostics {
				if te, ok := n.(*hclsyntax.TemplateExpr); ok && te.Range().Empty() {
					emptyTemplates[te.Range().Start.Byte] = true
				}
				return nil
			})
			// ---- part 1: on every file, broken or not
			for i, t := range toks {
				r.Class(string(t.Type))
				if !supported[string(t.Type)] {
					r.Fail("token-type", "token %d has unadvertised type %q", i, t.Type)
				}
				tainted := fi.badKeys[rkey(t.Range)] || (len(fi.tainted) > 0 && (fi.inTaint(t.Range.Start.Byte) || fi.inTaint(t.Range.End.Byte)))
				if t.Range.Start.Byte >= t.Range.End.Byte {
					if tainted {
						r.Exclude("upstream-range")
					} else {
						sig := "token-empty:" + string(t.Type)
						if t.Type == lang.TokenString && t.Range.Start.Byte == t.Range.End.Byte && emptyTemplates[t.Range.Start.Byte] {
							// known finding: the empty branch of a template directive gets an empty string token
							sig += ":empty-directive-branch"
						}
						r.Fail(sig, "token %d (%s) is empty or inverted: %d-%d in\n%s", i, t.Type, t.Range.Start.Byte, t.Range.End.Byte, clip(f.Text, 600))
					}
				}
				if i > 0 {
					prev := toks[i-1]
					if prev.Range.Start.Byte > t.Range.Start.Byte {
						r.Fail("token-order", "tokens %d and %d are not sorted by position (%d > %d)", i-1, i, prev.Range.Start.Byte, t.Range.Start.Byte)
					} else if prev.Range.End.Byte > t.Range.Start.Byte {
						if tainted || fi.badKeys[rkey(prev.Range)] || (len(fi.tainted) > 0 && fi.inTaint(prev.Range.Start.Byte)) {
							r.Exclude("upstream-range")
						} else {
							r.Fail("token-overlap:"+string(prev.Type)+"/"+string(t.Type), "tokens %d (%s %d-%d) and %d (%s %d-%d) overlap in\n%s", i-1, prev.Type, prev.Range.Start.Byte, prev.Range.End.Byte, i, t.Type, t.Range.Start.Byte, t.Range.End.Byte, clip(f.Text, 600))
						}
					}
				}
			}
			// deterministic as a list
			for k := 0; k < 2; k++ {
				res2 := Exec(w, d, cl)
				if res2.Panic == nil && res2.Err == nil {
					a, _ := NormResult(res)
					b, _ := NormResult(res2)
					if a != b {
						r.Fail("token-nondeterministic", "SemanticTokensInFile(%s) returned a different list on repetition", f.Name)
					}
				}
			}
			if p.Schema == nil || len(r.Failures) > 0 {
				continue
			}
			// ---- part 2: exactness against the model
			tm := refmodel.ExpectedTokens(p.Schema, body)
			var gotStruct []string
			for i, t := range toks {
				tk := toTok(t)
				if inRegions(tm.Ignore, tk.Start, tk.End) || (len(fi.tainted) > 0 && fi.inTaint(tk.Start)) {
					continue
				}
				if inRegions(tm.Forbidden, tk.Start, tk.End) {
					r.Fail("token-on-unknown:"+tk.Type, "token %d %s marks something inside an attribute/block/label unknown to the schema\n%s", i, tk, clip(f.Text, 800))
					continue
				}
				inValue := false
				for _, v := range tm.Values {
					if tk.Start >= v.Start && tk.End <= v.End {
						inValue = true
					}
				}
				if structuralTypes[tk.Type] && !inValue {
					gotStruct = append(gotStruct, tk.String())
					continue
				}
				// (attribute-name tokens also mark attribute names inside type declarations)
				valueTokens++
				if !inValue {
					r.Fail("value-token-outside-value:"+tk.Type, "token %d %s is not inside the value of a schema-known attribute\n%s", i, tk, clip(f.Text, 800))
				}
			}
			var wantStruct []string
			for _, tk := range tm.Structural {
				if inRegions(tm.Ignore, tk.Start, tk.End) || (len(fi.tainted) > 0 && fi.inTaint(tk.Start)) {
					continue
				}
				wantStruct = append(wantStruct, tk.String())
			}
			sort.Strings(gotStruct)
			sort.Strings(wantStruct)
			if strings.Join(gotStruct, " ") != strings.Join(wantStruct, " ") {
				missing, surplus := diffSorted(wantStruct, gotStruct)
				r.Fail("structural-tokens", "attribute-name / block-type / label tokens differ from the schema-known elements\n missing: %v\n surplus: %v\n file:\n%s", missing, surplus, clip(f.Text, 1000))
			}
			// determined literal tokens must be present exactly
			have := map[string]bool{}
			for _, t := range toks {
				have[toTok(t).String()] = true
			}
			// value tokens: literals, keywords, type names, object / map keys and known function
			// names are determined for values whose shape fits their constraint
			if fi.posModel && parseClean(hf) {
				for _, v := range tm.Values {
					if inRegions(tm.Ignore, v.Start, v.End) || (len(fi.tainted) > 0 && fi.inTaint(v.Start)) {
						continue
					}
					vt, ok := refmodel.ModelValueTokens(v.Cons, v.Expr, p.Funcs)
					if !ok {
						r.Class("value:undetermined")
						continue
					}
					r.Class("value:determined")
					want := map[string]bool{}
					for _, t := range vt.Required {
						want[t.String()] = true
					}
					seen := map[string]bool{}
					for _, t := range toks {
						tk := toTok(t)
						if tk.Start < v.Start || tk.End > v.End {
							continue
						}
						if tk.Type == "hcl-objectKey" && inRegions(vt.NoKey, tk.Start, tk.End) {
							r.Fail("value-token-surplus:objectKey-on-non-literal-key", "token %s marks an object key that is no literal name (it cannot be an attribute of the object)\n value: %q\n file:\n%s", tk, f.Text[v.Start:v.End], clip(f.Text, 800))
							continue
						}
						if inRegions(vt.Ignore, tk.Start, tk.End) {
							continue
						}
						if want[tk.String()] {
							seen[tk.String()] = true
							continue
						}
						if inRegions(vt.Optional, tk.Start, tk.End) && (tk.Type == "hcl-referenceStep" || tk.Type == "hcl-number" || tk.Type == "hcl-mapKey") {
							continue
						}
						r.Fail("value-token-surplus:"+tk.Type, "token %s inside the value of a schema-known attribute (constraint %s) is none of the determined tokens %v\n value: %q\n file:\n%s", tk, v.Cons.K, vt.Required, f.Text[v.Start:v.End], clip(f.Text, 800))
					}
					for _, t := range vt.Required {
						if !seen[t.String()] {
							r.Fail("value-token-missing:"+t.Type, "expected token %s inside the value of a schema-known attribute (constraint %s); tokens inside: %v\n value: %q\n file:\n%s", t, v.Cons.K, tokensWithin(toks, v.Start, v.End), f.Text[v.Start:v.End], clip(f.Text, 800))
						}
					}
				}
			}
			for _, lt := range tm.Literals {
				if inRegions(tm.Ignore, lt.Start, lt.End) || (len(fi.tainted) > 0 && fi.inTaint(lt.Start)) {
					continue
				}
				r.Class("literal-checked")
				if !have[lt.String()] {
					r.Fail("literal-token-missing:"+lt.Type, "expected token %s for a plain literal under a matching literal/any constraint; tokens inside: %v\n file:\n%s", lt, tokensWithin(toks, lt.Start, lt.End), clip(f.Text, 800))
				}
			}
		}
	}
	r.NonTrivial = valueTokens > 0
	return r
}

// parseClean reports whether the file parses without errors (exact value tokens are only
// judged there: error recovery attaches neighbouring text to expressions).
func parseClean(hf *hcl.File) bool {
	_, diags := hclsyntax.ParseConfig(hf.Bytes, "x.tf", hcl.InitialPos)
	return !diags.HasErrors()
}

func tokensWithin(toks []lang.SemanticToken, s, e int) []string {
	var out []string
	for _, t := range toks {
		if t.Range.Start.Byte >= s && t.Range.End.Byte <= e {
			out = append(out, toTok(t).String())
		}
	}
	return out
}

func TestC13(t *testing.T)        { Run(t, "C13", genC13, checkC13) }
func TestReplay_C13(t *testing.T) { Replay(t, "C13", checkC13) }
