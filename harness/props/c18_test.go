package props

import (
	"github.com/hashicorp/hcl-lang/decoder"
	"strings"
	"testing"

	"github.com/hashicorp/hcl-lang/lang"
	"github.com/hashicorp/hcl/v2"
	"github.com/hashicorp/hcl/v2/hclsyntax"

	"verif/harness/gen"
	m "verif/harness/model"
	"verif/harness/oracle"
	"verif/harness/world"
)

type C18Case struct {
	World  m.WorldM `json:"world"`
	Path   int      `json:"path"`
	File   string   `json:"file"`
	At     int      `json:"at"`     // insertion offset: a line start between top-level items
	Insert string   `json:"insert"` // whole lines (each ending in a newline)
}

// insertionPoints returns the line starts that lie outside every top-level item
// (offset 0 included), plus EOF when the file ends with a newline.
func insertionPoints(text string) []int {
	f, _ := hclsyntax.ParseConfig([]byte(text), "x", hcl.InitialPos)
	body, ok := f.Body.(*hclsyntax.Body)
	if !ok {
		return nil
	}
	inside := func(off int) bool {
		for _, a := range body.Attributes {
			r := a.Range()
			if off > r.Start.Byte && off <= r.End.Byte {
				return true
			}
		}
		for _, b := range body.Blocks {
			r := b.Range()
			if off > r.Start.Byte && off <= r.End.Byte {
				return true
			}
		}
		return false
	}
	toks, _ := hclsyntax.LexConfig([]byte(text), "x", hcl.InitialPos)
	inToken := func(off int) bool {
		// strictly inside a token (multi-line comment, heredoc, ...)
		for _, tk := range toks {
			if tk.Range.Start.Byte < off && off < tk.Range.End.Byte {
				return true
			}
			// an unterminated block comment swallows everything up to and including EOF
			if tk.Type == hclsyntax.TokenComment && strings.HasPrefix(string(tk.Bytes), "/*") && !strings.HasSuffix(string(tk.Bytes), "*/") && off >= tk.Range.Start.Byte {
				return true
			}
		}
		return false
	}
	var out []int
	if len(text) > 0 {
		out = append(out, 0) // in front of the first item: what sits on line 1 moves off it
	}
	for i := 1; i <= len(text); i++ {
		if text[i-1] == '\n' && !inside(i) && !inToken(i) {
			out = append(out, i)
		}
	}
	return out
}

func genC18(g gen.G) C18Case {
	o := gen.WorldOpts{
		Schema:   gen.SchemaOpts{MaxDepth: 2},
		Cfg:      gen.CfgOpts{Violations: 6, Layout: true, HalfTyped: 8},
		MaxPaths: 2, MaxFiles: 2, Edits: 1,
	}
	if g.Chance(50) {
		o.Edits = 0
	}
	w := g.World(o)
	if g.Chance(25) {
		// a world in which references resolve, with a twin of one file next to it: every
		// declaration has a counterpart at exactly the same position in another file
		w = g.RefWorld(1, false)
		src := w.Paths[0].Files[g.Int(0, len(w.Paths[0].Files)-1)]
		w.Paths[0].Files = append(w.Paths[0].Files, m.FileM{Name: "twin_" + src.Name, Text: src.Text})
	}
	// file names unique across paths, so that a range names its file unambiguously
	for pi := range w.Paths {
		for fi := range w.Paths[pi].Files {
			w.Paths[pi].Files[fi].Name = w.Paths[pi].Path + "_" + w.Paths[pi].Files[fi].Name
		}
	}
	c := C18Case{World: w, Path: g.Int(0, len(w.Paths)-1)}
	fi := g.Int(0, len(w.Paths[c.Path].Files)-1)
	f := w.Paths[c.Path].Files[fi]
	c.File = f.Name
	pts := insertionPoints(f.Text)
	if len(pts) > 1 && g.Chance(35) {
		// line-1 special cases: rotate the file so that an arbitrary top-level item comes
		// first, and insert in front of it
		p := gen.Pick(g, pts[1:])
		if p < len(f.Text) && strings.HasSuffix(f.Text, "\n") {
			f.Text = f.Text[p:] + f.Text[:p]
			w.Paths[c.Path].Files[fi].Text = f.Text
			pts = []int{0}
		}
	}
	if len(pts) > 0 {
		c.At = gen.Pick(g, pts)
	} else {
		c.At = -1
	}
	n := g.Int(1, 5)
	nl := "\n"
	if strings.Contains(f.Text, "\r\n") {
		nl = "\r\n"
	}
	for i := 0; i < n; i++ {
		c.Insert += gen.Pick(g, []string{"", "", "# comment", "// comment", "# čomment é 日本", "  ", "\t# x", "/* c */",
			// long lines: positions move across any fixed-size window or buffer boundary
			"# " + strings.Repeat("long comment é ", 9), "// " + strings.Repeat("x", 260)}) + nl
	}
	return c
}

// wholeFileItem reports whether some node starting at offset 0 ends exactly at the end of
// the file: its range could not be told from the root body's own extent.
func wholeFileItem(text string) bool {
	f, _ := hclsyntax.ParseConfig([]byte(text), "x", hcl.InitialPos)
	body, ok := f.Body.(*hclsyntax.Body)
	if !ok {
		return true
	}
	found := false
	_ = hclsyntax.VisitAll(body, func(n hclsyntax.Node) hcl.Diagnostics {
		if n == hclsyntax.Node(body) {
			return nil
		}
		switch n.(type) {
		case hclsyntax.Attributes, hclsyntax.Blocks:
			return nil
		}
		if rg := n.Range(); (rg.Start.Byte == 0 && rg.End.Byte == len(text)) || rg == body.Range() {
			found = true
		}
		return nil
	})
	// (the root body of a blank or comment-only file is an empty range: any cursor range equals it)
	return found || body.Range().Empty()
}

// topLevelCanon renders the top-level items of a file, positions shifted.
func topLevelCanon(text string, shift func(hcl.Range) hcl.Range) (string, bool) {
	f, _ := hclsyntax.ParseConfig([]byte(text), "x", hcl.InitialPos)
	body, ok := f.Body.(*hclsyntax.Body)
	if !ok {
		return "", false
	}
	type items struct {
		Attrs    hclsyntax.Attributes
		Blocks   hclsyntax.Blocks
		SrcRange hcl.Range
		EndRange hcl.Range
	}
	it := items{body.Attributes, body.Blocks, body.SrcRange, body.EndRange}
	// (the root body always starts at the start of the file: only its end moves)
	it.SrcRange.Start = hcl.Pos{}
	if shift == nil {
		shift = func(rg hcl.Range) hcl.Range { return rg }
	}
	return oracle.CanonShift(it, shift), true
}

func checkC18(c C18Case) Result {
	var r Result
	if c.At < 0 {
		r.Exclude("no-insertion-point")
		return r
	}
	var orig string
	fileIdx := -1
	for i, f := range c.World.Paths[c.Path].Files {
		if f.Name == c.File {
			orig, fileIdx = f.Text, i
		}
	}
	if fileIdx < 0 || c.At > len(orig) {
		r.Exclude("no-insertion-point")
		return r
	}
	valid := false
	for _, pt := range insertionPoints(orig) {
		if pt == c.At {
			valid = true
		}
	}
	if !valid {
		r.Exclude("no-insertion-point")
		return r
	}
	if c.At == 0 && (wholeFileItem(orig) || !strings.Contains(strings.TrimRight(orig, "\r\n"), "\n")) {
		// (in a one-line file the line's only item cannot be told from the root body's extent)
		r.Exclude("precondition:item-spans-whole-file")
		return r
	}
	if c.At == 0 {
		// an unterminated call ends, for the parser, at position 0,0: a cursor at offset 0 is then
		// "inside" an expression further down. Files whose AST carries such ranges are left out
		// when the insertion moves the very first position.
		if hf, _ := hclsyntax.ParseConfig([]byte(orig), c.File, hcl.InitialPos); hf != nil {
			if fi := analyseFile(c.File, hf); len(fi.tainted) > 0 || len(fi.badKeys) > 0 {
				r.Exclude("upstream-range")
				return r
			}
		}
	}
	translated := orig[:c.At] + c.Insert + orig[c.At:]
	nLines := strings.Count(c.Insert, "\n")
	nBytes := len(c.Insert)
	shiftPos := func(p hcl.Pos) hcl.Pos {
		if p.Byte >= c.At && !(p.Line == 0 && p.Column == 0) {
			p.Line += nLines
			p.Byte += nBytes
		}
		return p
	}
	shiftIn := func(file string) func(hcl.Range) hcl.Range {
		return func(rg hcl.Range) hcl.Range {
			if rg.Filename == file {
				rg.Start, rg.End = shiftPos(rg.Start), shiftPos(rg.End)
			}
			return rg
		}
	}
	shift := shiftIn(c.File)
	// precondition, checked on the parser: the translated file's top-level AST is
	// the shifted AST of the original (keeps out files whose error recovery
	// swallows the insertion point)
	a, ok1 := topLevelCanon(orig, shiftIn("x"))
	b, ok2 := topLevelCanon(translated, nil)
	if !ok1 || !ok2 || a != b || !tokensTranslated(orig, translated, c.At, nBytes, shiftPos) {
		r.Exclude("precondition:parser-ast-not-translated")
		return r
	}
	wm2 := cloneWorld(c.World)
	wm2.Paths[c.Path].Files[fileIdx].Text = translated
	w1, pi := SafeBuild(func() *world.World { return world.Build(c.World) })
	if pi != nil {
		r.Exclude("library-panic(C01)")
		return r
	}
	w2, pi := SafeBuild(func() *world.World { return world.Build(wm2) })
	if pi != nil {
		r.Exclude("library-panic(C01)")
		return r
	}
	d1, d2 := w1.Decoder(), w2.Decoder()
	var rootOrig, rootTrans *hcl.Range
	if b1, ok := w1.Reader.Ctx(c.World.Paths[c.Path].Path).Files[c.File].Body.(*hclsyntax.Body); ok {
		if b2, ok := w2.Reader.Ctx(c.World.Paths[c.Path].Path).Files[c.File].Body.(*hclsyntax.Body); ok {
			r1, r2 := b1.Range(), b2.Range()
			rootOrig, rootTrans = &r1, &r2
		}
	}
	shifted := false
	compare := func(cl Call) {
		cl2 := cl
		if cl.Path == c.Path && cl.File == c.File && cl.Byte >= c.At {
			cl2.Byte += nBytes
		}
		res1, res2 := Exec(w1, d1, cl), Exec(w2, d2, cl2)
		if res1.Panic != nil || res2.Panic != nil {
			r.Exclude("library-panic(C01)")
			return
		}
		if isPosOutOfRange(res1.Err) != isPosOutOfRange(res2.Err) {
			// the parser lets the root body start at the first token, so a cursor in leading blanks
			// of the first line is "outside the file" for the library; inserting lines in front
			// changes where the root body starts (upstream)
			r.Exclude("upstream-root-body-range")
			return
		}
		sh := shift
		if c.At == 0 {
			// results about the root body itself (a missing required attribute, the visibility of
			// count.index at the root) carry the root body's extent, which starts at the first
			// token of the file before and after
			inner := shift
			sh = func(rg hcl.Range) hcl.Range {
				if rg.Filename == c.File && rootOrig != nil && rg == *rootOrig {
					return *rootTrans
				}
				return inner(rg)
			}
		}
		n1, size := NormResultShift(res1, sh)
		n2, _ := NormResultShift(res2, func(rg hcl.Range) hcl.Range { return rg })
		r.Evals++
		if size > 0 {
			shifted = true
		}
		if n1 != n2 && cl.Kind == "hover" && selfAddressFlip(res1.Val, res2.Val) {
			// Target.Address decides between `self.x` and the absolute address by asking whether the
			// cursor lies in the range the target is visible from - without looking at the file name:
			// a declaration at coinciding coordinates in another file gets the wrong form
			r.Fail("translation:hover:self-address-of-coinciding-block-in-another-file", "inserting %d bytes at offset %d of %s flips the address shown by %s between the self.* and the absolute form (a twin declaration sits at coinciding coordinates in another file)\n original (shifted): %s\n translated:         %s",
				len(c.Insert), c.At, c.File, cl, around(n1, n2), around(n2, n1))
		} else if n1 != n2 {
			r.Fail("translation:"+cl.Kind, "inserting %q at offset %d of %s changes the result of %s beyond shifting positions\n original (shifted): %s\n translated:         %s",
				c.Insert, c.At, c.File, cl, around(n1, n2), around(n2, n1))
		}
	}
	for pi, p := range c.World.Paths {
		for _, k := range []string{"validate", "collectTargets", "collectOrigins", "wsSymbols"} {
			compare(Call{Kind: k, Path: pi})
		}
		for _, f := range p.Files {
			for _, k := range FileKinds {
				compare(Call{Kind: k, Path: pi, File: f.Name})
			}
			for _, off := range BoundaryOffsets([]byte(f.Text), 150) {
				for _, k := range []string{"completion", "hover", "signature", "gotoDef", "findRefs"} {
					compare(Call{Kind: k, Path: pi, File: f.Name, Byte: off})
				}
				if len(r.Failures) > 4 {
					return r
				}
			}
		}
	}
	if c.At == 0 {
		r.Class("before-the-first-item")
	}
	if c.At < len(orig) {
		r.Class("before-an-item")
	} else {
		r.Class("at-eof")
	}
	for _, ch := range []byte(c.Insert) {
		if ch >= 0x80 {
			r.Class("multi-byte-comment")
			break
		}
	}
	r.NonTrivial = shifted && c.At < len(orig)
	return r
}

func isPosOutOfRange(err error) bool {
	_, ok := err.(*decoder.PosOutOfRangeError)
	return ok
}

func TestC18(t *testing.T)        { Run(t, "C18", genC18, checkC18) }
func TestReplay_C18(t *testing.T) { Replay(t, "C18", checkC18) }

// tokensTranslated checks on the lexer that the translated file's token stream
// is the original's (shifted) plus comment / newline tokens inside the inserted
// region: an inserted "*/" may otherwise pair up with an earlier stray "/*".
func tokensTranslated(orig, translated string, at, nBytes int, shiftPos func(hcl.Pos) hcl.Pos) bool {
	t1, _ := hclsyntax.LexConfig([]byte(orig), "x", hcl.InitialPos)
	t2, _ := hclsyntax.LexConfig([]byte(translated), "x", hcl.InitialPos)
	var kept hclsyntax.Tokens
	for _, tk := range t2 {
		if tk.Range.Start.Byte >= at && tk.Range.End.Byte <= at+nBytes && tk.Type != hclsyntax.TokenEOF {
			if tk.Type != hclsyntax.TokenComment && tk.Type != hclsyntax.TokenNewline {
				return false
			}
			continue
		}
		kept = append(kept, tk)
	}
	if len(kept) != len(t1) {
		return false
	}
	for i := range t1 {
		wantStart, wantEnd := shiftPos(t1[i].Range.Start), t1[i].Range.End
		if t1[i].Range.End.Byte > at || t1[i].Range.Start.Byte >= at {
			wantEnd = shiftPos(wantEnd) // a token ending exactly at the insertion point stays
		}
		if t1[i].Type != kept[i].Type || string(t1[i].Bytes) != string(kept[i].Bytes) ||
			wantStart != kept[i].Range.Start || wantEnd != kept[i].Range.End {
			return false
		}
	}
	return true
}

// selfAddressFlip reports whether two hover results differ only in the form of the address in
// their first line: `self.<rest>` on one side, an absolute address ending in .<rest> on the other.
func selfAddressFlip(a, b interface{}) bool {
	ha, ok1 := a.(*lang.HoverData)
	hb, ok2 := b.(*lang.HoverData)
	if !ok1 || !ok2 || ha == nil || hb == nil {
		return false
	}
	first := func(s string) (string, string) {
		if i := strings.Index(s, "\n"); i >= 0 {
			return s[:i], s[i:]
		}
		return s, ""
	}
	la, ra := first(ha.Content.Value)
	lb, rb := first(hb.Content.Value)
	if ra != rb || la == lb {
		return false
	}
	if strings.HasPrefix(lb, "`self") {
		la, lb = lb, la
	}
	if !strings.HasPrefix(la, "`self") || strings.HasPrefix(lb, "`self") {
		return false
	}
	rest := strings.TrimSuffix(strings.TrimPrefix(la, "`self"), "`")
	return strings.HasSuffix(strings.TrimSuffix(lb, "`"), rest)
}
