package props

import (
	"strings"
	"testing"

	"github.com/hashicorp/hcl/v2"
	"github.com/hashicorp/hcl/v2/hclsyntax"

	"verif/harness/gen"
	m "verif/harness/model"
	"verif/harness/oracle"
	"verif/harness/world"
)

type C18Case struct {
	World  m.WorldM `json:"world"`
	Path   int      `json:"path"`
	File   string   `json:"file"`
	At     int      `json:"at"`     // insertion offset: a line start between top-level items
	Insert string   `json:"insert"` // whole lines (each ending in a newline)
}

// insertionPoints returns the line starts (other than offset 0) that lie outside
// every top-level item, plus EOF when the file ends with a newline.
func insertionPoints(text string) []int {
	f, _ := hclsyntax.ParseConfig([]byte(text), "x", hcl.InitialPos)
	body, ok := f.Body.(*hclsyntax.Body)
	if !ok {
		return nil
	}
	inside := func(off int) bool {
		for _, a := range body.Attributes {
			r := a.Range()
			if off > r.Start.Byte && off <= r.End.Byte {
				return true
			}
		}
		for _, b := range body.Blocks {
			r := b.Range()
			if off > r.Start.Byte && off <= r.End.Byte {
				return true
			}
		}
		return false
	}
	toks, _ := hclsyntax.LexConfig([]byte(text), "x", hcl.InitialPos)
	inToken := func(off int) bool {
		// strictly inside a token (multi-line comment, heredoc, ...)
		for _, tk := range toks {
			if tk.Range.Start.Byte < off && off < tk.Range.End.Byte {
				return true
			}
			// an unterminated block comment swallows everything up to and including EOF
			if tk.Type == hclsyntax.TokenComment && strings.HasPrefix(string(tk.Bytes), "/*") && !strings.HasSuffix(string(tk.Bytes), "*/") && off >= tk.Range.Start.Byte {
				return true
			}
		}
		return false
	}
	var out []int
	for i := 1; i <= len(text); i++ {
		if text[i-1] == '\n' && !inside(i) && !inToken(i) {
			out = append(out, i)
		}
	}
	return out
}

func genC18(g gen.G) C18Case {
	o := gen.WorldOpts{
		Schema:   gen.SchemaOpts{MaxDepth: 2},
		Cfg:      gen.CfgOpts{Violations: 6, Layout: true, HalfTyped: 4},
		MaxPaths: 2, MaxFiles: 2, Edits: 1,
	}
	if g.Chance(50) {
		o.Edits = 0
	}
	w := g.World(o)
	// file names unique across paths, so that a range names its file unambiguously
	for pi := range w.Paths {
		for fi := range w.Paths[pi].Files {
			w.Paths[pi].Files[fi].Name = w.Paths[pi].Path + "_" + w.Paths[pi].Files[fi].Name
		}
	}
	c := C18Case{World: w, Path: g.Int(0, len(w.Paths)-1)}
	f := w.Paths[c.Path].Files[g.Int(0, len(w.Paths[c.Path].Files)-1)]
	c.File = f.Name
	pts := insertionPoints(f.Text)
	if len(pts) > 0 {
		c.At = gen.Pick(g, pts)
	} else {
		c.At = -1
	}
	n := g.Int(1, 5)
	nl := "\n"
	if strings.Contains(f.Text, "\r\n") {
		nl = "\r\n"
	}
	for i := 0; i < n; i++ {
		c.Insert += gen.Pick(g, []string{"", "", "# comment", "// comment", "# čomment é 日本", "  ", "\t# x", "/* c */"}) + nl
	}
	return c
}

// topLevelCanon renders the top-level items of a file, positions shifted.
func topLevelCanon(text string, shift func(hcl.Range) hcl.Range) (string, bool) {
	f, _ := hclsyntax.ParseConfig([]byte(text), "x", hcl.InitialPos)
	body, ok := f.Body.(*hclsyntax.Body)
	if !ok {
		return "", false
	}
	type items struct {
		Attrs    hclsyntax.Attributes
		Blocks   hclsyntax.Blocks
		SrcRange hcl.Range
		EndRange hcl.Range
	}
	it := items{body.Attributes, body.Blocks, body.SrcRange, body.EndRange}
	if shift == nil {
		shift = func(rg hcl.Range) hcl.Range { return rg }
	}
	return oracle.CanonShift(it, shift), true
}

func checkC18(c C18Case) Result {
	var r Result
	if c.At < 0 {
		r.Exclude("no-insertion-point")
		return r
	}
	var orig string
	fileIdx := -1
	for i, f := range c.World.Paths[c.Path].Files {
		if f.Name == c.File {
			orig, fileIdx = f.Text, i
		}
	}
	if fileIdx < 0 || c.At > len(orig) {
		r.Exclude("no-insertion-point")
		return r
	}
	valid := false
	for _, pt := range insertionPoints(orig) {
		if pt == c.At {
			valid = true
		}
	}
	if !valid {
		r.Exclude("no-insertion-point")
		return r
	}
	translated := orig[:c.At] + c.Insert + orig[c.At:]
	nLines := strings.Count(c.Insert, "\n")
	nBytes := len(c.Insert)
	shiftPos := func(p hcl.Pos) hcl.Pos {
		if p.Byte >= c.At && !(p.Line == 0 && p.Column == 0) {
			p.Line += nLines
			p.Byte += nBytes
		}
		return p
	}
	shiftIn := func(file string) func(hcl.Range) hcl.Range {
		return func(rg hcl.Range) hcl.Range {
			if rg.Filename == file {
				rg.Start, rg.End = shiftPos(rg.Start), shiftPos(rg.End)
			}
			return rg
		}
	}
	shift := shiftIn(c.File)
	// precondition, checked on the parser: the translated file's top-level AST is
	// the shifted AST of the original (keeps out files whose error recovery
	// swallows the insertion point)
	a, ok1 := topLevelCanon(orig, shiftIn("x"))
	b, ok2 := topLevelCanon(translated, nil)
	if !ok1 || !ok2 || a != b || !tokensTranslated(orig, translated, c.At, nBytes, shiftPos) {
		r.Exclude("precondition:parser-ast-not-translated")
		return r
	}
	wm2 := cloneWorld(c.World)
	wm2.Paths[c.Path].Files[fileIdx].Text = translated
	w1, pi := SafeBuild(func() *world.World { return world.Build(c.World) })
	if pi != nil {
		r.Exclude("library-panic(C01)")
		return r
	}
	w2, pi := SafeBuild(func() *world.World { return world.Build(wm2) })
	if pi != nil {
		r.Exclude("library-panic(C01)")
		return r
	}
	d1, d2 := w1.Decoder(), w2.Decoder()
	shifted := false
	compare := func(cl Call) {
		cl2 := cl
		if cl.Path == c.Path && cl.File == c.File && cl.Byte >= c.At {
			cl2.Byte += nBytes
		}
		res1, res2 := Exec(w1, d1, cl), Exec(w2, d2, cl2)
		if res1.Panic != nil || res2.Panic != nil {
			r.Exclude("library-panic(C01)")
			return
		}
		n1, size := NormResultShift(res1, shift)
		n2, _ := NormResultShift(res2, func(rg hcl.Range) hcl.Range { return rg })
		r.Evals++
		if size > 0 {
			shifted = true
		}
		if n1 != n2 {
			r.Fail("translation:"+cl.Kind, "inserting %q at offset %d of %s changes the result of %s beyond shifting positions\n original (shifted): %s\n translated:         %s",
				c.Insert, c.At, c.File, cl, around(n1, n2), around(n2, n1))
		}
	}
	for pi, p := range c.World.Paths {
		for _, k := range []string{"validate", "collectTargets", "collectOrigins", "wsSymbols"} {
			compare(Call{Kind: k, Path: pi})
		}
		for _, f := range p.Files {
			for _, k := range FileKinds {
				compare(Call{Kind: k, Path: pi, File: f.Name})
			}
			for _, off := range BoundaryOffsets([]byte(f.Text), 150) {
				for _, k := range []string{"completion", "hover", "signature", "gotoDef", "findRefs"} {
					compare(Call{Kind: k, Path: pi, File: f.Name, Byte: off})
				}
				if len(r.Failures) > 4 {
					return r
				}
			}
		}
	}
	if c.At < len(orig) {
		r.Class("before-an-item")
	} else {
		r.Class("at-eof")
	}
	for _, ch := range []byte(c.Insert) {
		if ch >= 0x80 {
			r.Class("multi-byte-comment")
			break
		}
	}
	r.NonTrivial = shifted && c.At < len(orig)
	return r
}

func TestC18(t *testing.T)        { Run(t, "C18", genC18, checkC18) }
func TestReplay_C18(t *testing.T) { Replay(t, "C18", checkC18) }

// tokensTranslated checks on the lexer that the translated file's token stream
// is the original's (shifted) plus comment / newline tokens inside the inserted
// region: an inserted "*/" may otherwise pair up with an earlier stray "/*".
func tokensTranslated(orig, translated string, at, nBytes int, shiftPos func(hcl.Pos) hcl.Pos) bool {
	t1, _ := hclsyntax.LexConfig([]byte(orig), "x", hcl.InitialPos)
	t2, _ := hclsyntax.LexConfig([]byte(translated), "x", hcl.InitialPos)
	var kept hclsyntax.Tokens
	for _, tk := range t2 {
		if tk.Range.Start.Byte >= at && tk.Range.End.Byte <= at+nBytes && tk.Type != hclsyntax.TokenEOF {
			if tk.Type != hclsyntax.TokenComment && tk.Type != hclsyntax.TokenNewline {
				return false
			}
			continue
		}
		kept = append(kept, tk)
	}
	if len(kept) != len(t1) {
		return false
	}
	for i := range t1 {
		wantStart, wantEnd := shiftPos(t1[i].Range.Start), t1[i].Range.End
		if t1[i].Range.End.Byte > at || t1[i].Range.Start.Byte >= at {
			wantEnd = shiftPos(wantEnd) // a token ending exactly at the insertion point stays
		}
		if t1[i].Type != kept[i].Type || string(t1[i].Bytes) != string(kept[i].Bytes) ||
			wantStart != kept[i].Range.Start || wantEnd != kept[i].Range.End {
			return false
		}
	}
	return true
}
