package props

import (
	"sort"
	"strings"
	"testing"

	"github.com/hashicorp/hcl-lang/lang"
	"github.com/hashicorp/hcl/v2"
	"github.com/hashicorp/hcl/v2/hclsyntax"

	"verif/harness/gen"
	m "verif/harness/model"
	"verif/harness/refmodel"
	"verif/harness/world"
)

type C15Case struct {
	World m.WorldM `json:"world"`
}

func genC15(g gen.G) C15Case {
	o := gen.WorldOpts{
		Schema:   gen.SchemaOpts{MaxDepth: 3, NoHooks: true, DepBoost: true},
		Cfg:      gen.CfgOpts{Violations: 18, Layout: false},
		MaxPaths: 1, MaxFiles: 2, Edits: 1, Validators: 100,
	}
	if g.Chance(75) {
		o.Edits = 0
	}
	return C15Case{World: g.World(o)}
}

func toDiags(ds hcl.Diagnostics) []refmodel.Diag {
	var out []refmodel.Diag
	for _, d := range ds {
		x := refmodel.Diag{Error: d.Severity == hcl.DiagError, Summary: d.Summary, Start: -1, End: -1}
		if d.Subject != nil {
			x.File, x.Start, x.End = d.Subject.Filename, d.Subject.Start.Byte, d.Subject.End.Byte
		}
		out = append(out, x)
	}
	return out
}

func filterDiags(ds []refmodel.Diag, ignore []refmodel.Region, dontCare ...refmodel.Diag) []string {
	var out []string
	for _, d := range ds {
		skip := false
		for _, dc := range dontCare {
			if dc == d {
				skip = true
			}
		}
		for _, rg := range ignore {
			if d.Start >= rg.Start && d.End <= rg.End {
				skip = true
			}
		}
		if !skip {
			out = append(out, d.String())
		}
	}
	sort.Strings(out)
	return out
}

func diagKind(s string) string {
	for _, k := range []string{"Unexpected attribute", "Unexpected block", "Required attribute", "Too many labels", "Not enough labels", "Too many blocks", "Too few blocks", "is deprecated"} {
		if strings.Contains(s, k) {
			return k
		}
	}
	return "other"
}

func checkC15(c C15Case) Result {
	var r Result
	w, pi := SafeBuild(func() *world.World { return world.Build(c.World) })
	if pi != nil {
		r.Exclude("library-panic(C01)")
		return r
	}
	d := w.Decoder()
	depBlocks := false
	for pi, p := range c.World.Paths {
		if p.Schema == nil {
			continue
		}
		pc := w.Reader.Ctx(p.Path)
		perFile := map[string][]string{}
		for _, f := range p.Files {
			hf := pc.Files[f.Name]
			body, ok := hf.Body.(*hclsyntax.Body)
			if !ok {
				continue
			}
			refmodel.WalkBodies(p.Schema, body, func(bc *refmodel.BodyCtx) {
				if bc.Sel.Index >= 0 {
					depBlocks = true
					if bc.BlockM != nil && len(bc.BlockM.Deps[bc.Sel.Index].Attrs) > 0 {
						r.Class("dep-keyed-by-attribute")
					}
					if bc.Sel.Level1 != bc.Sel.Index {
						r.Class("dep-second-level")
					}
				}
				if bc.Sel.HasKeys && !bc.Sel.Resolved && !bc.Sel.Undetermined {
					r.Class("dep-lookup-failed(unknown-schema)")
				}
			})
			want, ignore, dontCare := refmodel.ExpectedDiagnostics(p.Schema, body)
			res := Exec(w, d, Call{Kind: "validateFile", Path: pi, File: f.Name})
			if res.Panic != nil {
				r.Exclude("library-panic(C01)")
				continue
			}
			if res.Err != nil {
				r.Fail("validate-error", "ValidateFile(%s) returned %v", f.Name, res.Err)
				continue
			}
			r.Evals++
			got := toDiags(res.Val.(hcl.Diagnostics))
			// a block whose key attribute has no static value: its dependent body cannot be resolved,
			// so nothing directly inside it may be reported as unexpected
			if forbidden := refmodel.UnexpectedForbidden(p.Schema, body); len(forbidden) > 0 {
				r.Class("dep-key-without-static-value")
				for _, g := range got {
					if !strings.HasPrefix(g.Summary, "Unexpected") {
						continue
					}
					for _, rg := range forbidden {
						if g.Start == rg.Start && g.End == rg.End {
							r.Fail("diagnostics:unexpected-in-unresolvable-block", "ValidateFile(%s) reports %q at %d-%d inside a block whose dependency key attribute has no static value (the dependent body cannot be resolved there)\n%s", f.Name, g.Summary, g.Start, g.End, clip(f.Text, 1200))
						}
					}
				}
			}
			ws, gs := filterDiags(want, ignore, dontCare...), filterDiags(got, ignore, dontCare...)
			perFile[f.Name] = filterDiags(got, nil)
			if len(ignore) > 0 {
				r.Exclude("dontcare:undetermined-region")
			}
			for _, s := range ws {
				r.Class(diagKind(s))
			}
			if strings.Join(ws, "\n") != strings.Join(gs, "\n") {
				missing, surplus := diffSorted(ws, gs)
				kind := "mismatch"
				if len(missing) > 0 {
					kind = "missing:" + diagKind(missing[0])
				} else if len(surplus) > 0 {
					kind = "surplus:" + diagKind(surplus[0])
				}
				r.Fail("diagnostics:"+kind, "ValidateFile(%s) does not report exactly the violations present\n missing (expected, not reported): %v\n surplus (reported, not expected): %v\n file:\n%s",
					f.Name, missing, surplus, clip(f.Text, 1200))
			}
		}
		// Validate() must agree with ValidateFile per file
		res := Exec(w, d, Call{Kind: "validate", Path: pi})
		if res.Panic == nil && res.Err == nil {
			dm := res.Val.(lang.DiagnosticsMap)
			for fname, want := range perFile {
				got := filterDiags(toDiags(dm[fname]), nil)
				r.Evals++
				if strings.Join(want, "\n") != strings.Join(got, "\n") {
					r.Fail("validate-vs-validatefile", "Validate()[%s] differs from ValidateFile(%s):\n %v\n vs\n %v", fname, fname, got, want)
				}
			}
		}
	}
	if depBlocks {
		r.Class("dependent-body-selected")
	}
	r.NonTrivial = len(r.Classes) >= 2
	return r
}

// diffSorted returns elements only in a and only in b (multiset difference).
func diffSorted(a, b []string) (onlyA, onlyB []string) {
	cnt := map[string]int{}
	for _, x := range a {
		cnt[x]++
	}
	for _, x := range b {
		cnt[x]--
	}
	for k, v := range cnt {
		for ; v > 0; v-- {
			onlyA = append(onlyA, k)
		}
		for ; v < 0; v++ {
			onlyB = append(onlyB, k)
		}
	}
	sort.Strings(onlyA)
	sort.Strings(onlyB)
	return
}

func TestC15(t *testing.T)        { Run(t, "C15", genC15, checkC15) }
func TestReplay_C15(t *testing.T) { Replay(t, "C15", checkC15) }
