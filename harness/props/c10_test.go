package props

import (
	"sort"
	"strings"
	"testing"

	"github.com/hashicorp/hcl-lang/reference"
	"github.com/hashicorp/hcl/v2/hclsyntax"
	"github.com/zclconf/go-cty/cty"

	"verif/harness/gen"
	m "verif/harness/model"
	"verif/harness/refmodel"
	"verif/harness/world"
)

type C10Case struct {
	World m.WorldM `json:"world"`
}

func genC10(g gen.G) C10Case {
	o := gen.WorldOpts{
		Schema:   gen.SchemaOpts{MaxDepth: 2, NoHooks: true, Paths: nil},
		Cfg:      gen.CfgOpts{Violations: 8, Layout: true, Typed: true, RefHeavy: true},
		MaxPaths: 1, MaxFiles: 2,
	}
	w := g.World(o)
	// every function returns "any type" so that calls are admissible wherever they are written
	for pi := range w.Paths {
		for n, f := range w.Paths[pi].Funcs {
			f.Ret = m.TyOf(cty.DynamicPseudoType)
			w.Paths[pi].Funcs[n] = f
		}
	}
	return C10Case{World: w}
}

func checkC10(c C10Case) Result {
	var r Result
	w, pi := SafeBuild(func() *world.World { return world.Build(c.World) })
	if pi != nil {
		r.Exclude("library-panic(C01)")
		return r
	}
	d := w.Decoder()
	for pi, p := range c.World.Paths {
		if p.Schema == nil {
			continue
		}
		pc := w.Reader.Ctx(p.Path)
		res := Exec(w, d, Call{Kind: "collectOrigins", Path: pi})
		if res.Panic != nil || res.Err != nil {
			r.Exclude("library-panic(C01)")
			continue
		}
		origins := res.Val.(reference.Origins)
		// ordered by file and position
		for i := 1; i < len(origins); i++ {
			a, b := origins[i-1].OriginRange(), origins[i].OriginRange()
			if a.Filename > b.Filename || (a.Filename == b.Filename && a.Start.Byte > b.Start.Byte) {
				r.Fail("origins-order", "origins %d and %d are not ordered by file and position: %s:%d then %s:%d", i-1, i, a.Filename, a.Start.Byte, b.Filename, b.Start.Byte)
				break
			}
		}
		for _, f := range p.Files {
			hf := pc.Files[f.Name]
			body, ok := hf.Body.(*hclsyntax.Body)
			if !ok {
				continue
			}
			fi := analyseFile(f.Name, hf)
			om := refmodel.ExpectedOrigins(p.Schema, body, p.Funcs)
			for cl := range om.Classes {
				r.Class(cl)
			}
			skip := func(s, e int) bool {
				for _, rg := range om.DontCare {
					if s >= rg.Start && e <= rg.End {
						return true
					}
				}
				return len(fi.tainted) > 0 && (fi.inTaint(s) || fi.inTaint(e))
			}
			var got, want, gotPath, wantPath []string
			var gotDirect, wantDirect []string
			for _, o := range origins {
				rg := o.OriginRange()
				if rg.Filename != f.Name {
					continue
				}
				switch x := o.(type) {
				case reference.LocalOrigin:
					if skip(rg.Start.Byte, rg.End.Byte) {
						continue
					}
					got = append(got, refmodel.Origin{Addr: x.Addr.String(), Start: rg.Start.Byte, End: rg.End.Byte}.String())
				case reference.PathOrigin:
					gotPath = append(gotPath, refmodel.Origin{Addr: x.TargetAddr.String(), Start: rg.Start.Byte, End: rg.End.Byte}.String())
				case reference.DirectOrigin:
					if !skip(rg.Start.Byte, rg.End.Byte) {
						gotDirect = append(gotDirect, refmodel.Origin{Addr: "direct", Start: rg.Start.Byte, End: rg.End.Byte}.String())
					}
				}
			}
			for _, o := range om.Expected {
				if !skip(o.Start, o.End) {
					want = append(want, o.String())
				}
			}
			for _, o := range om.Path {
				wantPath = append(wantPath, o.String())
			}
			sort.Strings(got)
			sort.Strings(want)
			r.Evals += len(want) + 1
			if strings.Join(got, " ") != strings.Join(want, " ") {
				missing, surplus := diffSorted(want, got)
				kind := "surplus"
				if len(missing) > 0 {
					kind = "missing"
				}
				r.Fail("origins:"+kind, "collected local origins of %s differ from the references written in schema-known, admitting places\n missing: %v\n surplus: %v\n file:\n%s", f.Name, missing, surplus, clip(f.Text, 1500))
			}
			// implied origins add path origins on top of OriginForTarget ones: only require the latter
			sort.Strings(gotPath)
			for _, wp := range wantPath {
				found := false
				for _, gp := range gotPath {
					if gp == wp {
						found = true
					}
				}
				if !found {
					r.Fail("origins:path-missing", "path origin %s (attribute with OriginForTarget) missing; got %v", wp, gotPath)
				}
			}
			if len(wantPath) > 0 {
				r.Class("path-origin")
			}
			for _, dr := range om.Direct {
				if !skip(dr.Start, dr.End) {
					wantDirect = append(wantDirect, refmodel.Origin{Addr: "direct", Start: dr.Start, End: dr.End}.String())
				}
			}
			sort.Strings(gotDirect)
			sort.Strings(wantDirect)
			if strings.Join(gotDirect, " ") != strings.Join(wantDirect, " ") {
				r.Fail("origins:direct", "direct origins %v collected in %s, expected %v (one per key attribute of a body with Targets)\n%s", gotDirect, f.Name, wantDirect, clip(f.Text, 1200))
			}
			if len(om.Direct) > 0 {
				r.Class("direct-origin")
			}
		}
	}
	r.NonTrivial = len(r.Classes) >= 2
	return r
}

func TestC10(t *testing.T)        { Run(t, "C10", genC10, checkC10) }
func TestReplay_C10(t *testing.T) { Replay(t, "C10", checkC10) }
