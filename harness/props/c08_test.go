package props

import (
	"fmt"
	"strings"
	"testing"

	"github.com/hashicorp/hcl-lang/decoder"
	"github.com/hashicorp/hcl-lang/lang"
	"github.com/hashicorp/hcl-lang/reference"
	"github.com/hashicorp/hcl/v2"
	"github.com/hashicorp/hcl/v2/hclsyntax"
	"github.com/zclconf/go-cty/cty"
	"github.com/zclconf/go-cty/cty/convert"

	"verif/harness/gen"
	m "verif/harness/model"
	"verif/harness/refmodel"
	"verif/harness/world"
)

type C08Case struct {
	World m.WorldM `json:"world"`
}

func genC08(g gen.G) C08Case {
	w := g.RefWorld(1, false)
	// half-type some references: cut a value after a prefix of a reference so that
	// completion has a typed prefix to work with
	for fi := range w.Paths[0].Files {
		lines := strings.Split(w.Paths[0].Files[fi].Text, "\n")
		cut := false
		for li, l := range lines {
			i := strings.Index(l, " = ")
			if i < 0 || cut || !g.Chance(12) {
				continue
			}
			val := l[i+3:]
			if len(val) < 2 || strings.ContainsAny(val, "{[\"(") {
				continue
			}
			k := g.Int(0, len(val))
			lines[li] = l[:i+3] + val[:k]
			cut = true // one half-typed value per file keeps the rest parseable
		}
		w.Paths[0].Files[fi].Text = strings.Join(lines, "\n")
	}
	if g.Chance(20) {
		// a map declaration whose keys need quoting / escaping when written as index steps, and a
		// consumer indexing that map: the candidates offered behind "tags[" are those keys
		typ, nm := gen.Pick(g, []string{"aws", "az"}), gen.Pick(g, []string{"q", "cé", "a"})
		key := gen.Pick(g, []string{`"say \"hi\""`, `"a b"`, `"é"`, `"x\\y"`, `"tab\there"`})
		frag := fmt.Sprintf("resource %q %q {\n  tags = { %s = \"v\", k = \"w\" }\n}\noutput \"qq\" {\n  %s = %s.%s.tags[\"k\"]\n}\n", typ, nm, key, gen.Pick(g, []string{"value", "str"}), typ, nm)
		f := &w.Paths[0].Files[g.Int(0, len(w.Paths[0].Files)-1)]
		if !strings.HasSuffix(f.Text, "\n") {
			f.Text += "\n"
		}
		f.Text += frag
	}
	return C08Case{World: w}
}

// expectedAt describes what the constraint at the cursor expects, when the cursor
// is directly in an attribute value whose expression is a plain traversal or empty.
type expectedAt struct {
	known    bool
	scopes   []string   // admitted reference scopes ("" entries: any scope)
	types    []cty.Type // admitted types
	typeless bool       // a type-less reference constraint is among the admitted ones
}

func flattenCons(c m.ConsM, out *[]m.ConsM) {
	if c.K == "oneof" {
		for _, e := range c.Elems {
			flattenCons(e, out)
		}
		return
	}
	*out = append(*out, c)
}

func expectationFor(c m.ConsM) expectedAt {
	var cs []m.ConsM
	flattenCons(c, &cs)
	e := expectedAt{known: true}
	for _, x := range cs {
		switch x.K {
		case "any":
			e.types = append(e.types, x.Ty.Cty())
		case "ref":
			if x.AddrScope != "" {
				continue
			}
			if x.Ty != "" {
				e.types = append(e.types, x.Ty.Cty())
				e.scopes = append(e.scopes, x.Scope)
			} else {
				e.typeless = true
				e.scopes = append(e.scopes, x.Scope)
			}
		case "littype", "litval", "keyword", "typedecl":
		default:
			e.known = false // collections: the cursor may be in an element
		}
	}
	return e
}

// fits reports whether target t itself satisfies the expectation.
func (e expectedAt) fits(t reference.Target) bool {
	for _, ty := range e.types {
		if t.Type == cty.NilType {
			continue
		}
		if t.Type == cty.DynamicPseudoType || ty == cty.DynamicPseudoType {
			return true
		}
		if _, err := convert.Convert(cty.UnknownVal(t.Type), ty); err == nil {
			return true
		}
	}
	if e.typeless && t.Type == cty.NilType {
		for _, s := range e.scopes {
			if s == "" || s == string(t.ScopeId) {
				return true
			}
		}
	}
	return false
}

func anyNestedFits(e expectedAt, t reference.Target, depth int) bool {
	if e.fits(t) {
		return true
	}
	if depth > 8 {
		return false
	}
	for _, n := range t.NestedTargets {
		if anyNestedFits(e, n, depth+1) {
			return true
		}
	}
	return false
}

// paramTypeAtCursor returns the type of the parameter whose argument slot holds the
// cursor: the call is directly the value of an any-expression attribute, the function
// is known, the cursor lies between its parentheses, the slot index is the number of
// commas of this call typed before the cursor, and the argument under the cursor (if
// one is written there) is a plain traversal or literal.
func paramTypeAtCursor(call *hclsyntax.FunctionCallExpr, funcs map[string]m.FuncM, text string, off int, cons m.ConsM) (cty.Type, bool) {
	var cs []m.ConsM
	flattenCons(cons, &cs)
	if len(cs) != 1 || cs[0].K != "any" {
		return cty.NilType, false
	}
	fn, ok := funcs[call.Name]
	if !ok {
		return cty.NilType, false
	}
	if call.OpenParenRange.End.Byte > off || call.CloseParenRange.Start.Byte < off || call.CloseParenRange.Start.Byte <= call.OpenParenRange.Start.Byte {
		return cty.NilType, false
	}
	slot := 0
	for _, arg := range call.Args {
		ar := arg.Range()
		if ar.Start.Byte <= off && off <= ar.End.Byte {
			switch arg.(type) {
			case *hclsyntax.ScopeTraversalExpr, *hclsyntax.LiteralValueExpr:
			default:
				return cty.NilType, false
			}
			break
		}
		if ar.End.Byte < off && strings.Contains(text[ar.End.Byte:off], ",") {
			slot++
		}
	}
	switch {
	case slot < len(fn.Params):
		return fn.Params[slot].Ty.Cty(), true
	case fn.VarParam != nil:
		return fn.VarParam.Ty.Cty(), true
	}
	return cty.NilType, false
}

// objectItemAtCursor descends through object constructors to the item whose value holds the
// cursor and returns that attribute's constraint and value expression. unconstrained is set
// when the cursor is in the value of an item whose key is no literal name.
func objectItemAtCursor(cons m.ConsM, expr hclsyntax.Expression, off int) (m.ConsM, hclsyntax.Expression, bool) {
	for depth := 0; depth < 6; depth++ {
		oc, ok := expr.(*hclsyntax.ObjectConsExpr)
		if !ok {
			return cons, expr, false
		}
		attrs := map[string]m.ConsM{}
		switch {
		case cons.K == "object":
			for n, a := range cons.Attrs {
				attrs[n] = a.Cons
			}
		case (cons.K == "any" || cons.K == "littype") && cons.Ty != "" && cons.Ty.Cty().IsObjectType():
			for n, t := range cons.Ty.Cty().AttributeTypes() {
				attrs[n] = m.ConsM{K: cons.K, Ty: m.TyOf(t)}
			}
		default:
			return cons, expr, false
		}
		var hit *hclsyntax.ObjectConsItem
		for i := range oc.Items {
			vr := oc.Items[i].ValueExpr.Range()
			if vr.Start.Byte <= off && off <= vr.End.Byte {
				hit = &oc.Items[i]
			}
		}
		if hit == nil {
			return cons, expr, false
		}
		name, raw := refmodel.RawObjectKey(*hit)
		if !raw {
			return cons, hit.ValueExpr, true
		}
		sub, known := attrs[name]
		if !known {
			return cons, expr, false
		}
		cons, expr = sub, hit.ValueExpr
	}
	return cons, expr, false
}

func checkC08(c C08Case) Result {
	var r Result
	w, pi := SafeBuild(func() *world.World { return world.Build(c.World) })
	if pi != nil {
		r.Exclude("library-panic(C01)")
		return r
	}
	d := w.Decoder()
	p := c.World.Paths[0]
	pc := w.Reader.Ctx(p.Path)
	var flat []reference.Target
	flattenTargets(pc.ReferenceTargets, &flat, 0)
	byAddr := map[string][]reference.Target{}
	for _, t := range flat {
		if len(t.Addr) > 0 {
			byAddr[t.Addr.String()] = append(byAddr[t.Addr.String()], t)
		}
		if len(t.LocalAddr) > 0 {
			byAddr["local:"+t.LocalAddr.String()] = append(byAddr["local:"+t.LocalAddr.String()], t)
		}
	}
	roundTrips, specialTrips := 0, 0
	refCands := 0
	for _, f := range p.Files {
		hf := pc.Files[f.Name]
		body, ok := hf.Body.(*hclsyntax.Body)
		if !ok {
			continue
		}
		fi := analyseFile(f.Name, hf)
		text := f.Text
		for _, off := range BoundaryOffsets([]byte(text), 600) {
			if len(fi.tainted) > 0 && fi.inTaint(off) {
				continue
			}
			loc := refmodel.Locate(p.Schema, body, off)
			if loc.Kind != "attrValue" || loc.BC == nil || loc.BC.Schema == nil || loc.BC.Undetermined {
				continue
			}
			a := loc.Attr
			as, known := loc.BC.Schema.Attrs[a.Name]
			if !known {
				if loc.BC.Schema.AnyAttr == nil {
					continue
				}
				as = *loc.BC.Schema.AnyAttr
			}
			if loc.BC.Schema.Ext != nil && (a.Name == "count" || a.Name == "for_each") {
				continue
			}
			cl := Call{Kind: "completion", Path: 0, File: f.Name, Byte: off}
			res := Exec(w, d, cl)
			if res.Panic != nil {
				r.Exclude("library-panic(C01)")
				continue
			}
			if res.Err != nil {
				continue
			}
			cands := res.Val.(lang.Candidates)
			r.Evals++
			// the expectation is only known when the value is a plain traversal / empty
			// inside an object constructor the attribute under the cursor decides: descend to the
			// item whose value holds the cursor; an item whose key is no literal name has no
			// constraint at all
			valCons, valExpr, unconstrained := objectItemAtCursor(as.Cons, a.Expr, off)
			if unconstrained {
				r.Class("cursor-in-value-of-non-literal-key")
			}
			exp := expectedAt{}
			inCallArg := false
			switch e := valExpr.(type) {
			case *hclsyntax.ScopeTraversalExpr, *hclsyntax.LiteralValueExpr, *hclsyntax.ExprSyntaxError:
				if !unconstrained {
					exp = expectationFor(valCons)
				}
			case *hclsyntax.TemplateWrapExpr, *hclsyntax.TemplateExpr:
				// inside an interpolation a string is expected, whatever the attribute's own type is
				// (only judged where the value is an any-expression: templates are admitted there)
				if part := interpolationAtCursor(e, off); part != nil && !unconstrained && valCons.K == "any" {
					switch part.(type) {
					case *hclsyntax.ScopeTraversalExpr, *hclsyntax.ExprSyntaxError:
						exp = expectedAt{known: true, types: []cty.Type{cty.String}}
						inCallArg = true // (no round trip: the inserted text lands inside a string)
						r.Class("cursor-in-template-interpolation")
					}
				}
			case *hclsyntax.FunctionCallExpr:
				// inside the parentheses of a call of a known function the parameter of the
				// argument slot holding the cursor decides what fits
				if pt, ok := paramTypeAtCursor(e, p.Funcs, text, off, valCons); ok && !unconstrained {
					exp = expectedAt{known: true, types: []cty.Type{pt}}
					inCallArg = true
					r.Class("cursor-in-call-argument")
				}
			}
			cursorPos := FilePos(w, 0, f.Name, off)
			for i, cd := range cands.List {
				rg := cd.TextEdit.Range
				if rg.Start.Byte < 0 || rg.Start.Byte > off || rg.End.Byte > len(text) || rg.Start.Byte > rg.End.Byte {
					continue // malformed edits are C06's business
				}
				typed := text[rg.Start.Byte:off]
				if unconstrained && (cd.Kind == lang.ReferenceCandidateKind || cd.Kind == lang.FunctionCandidateKind || cd.Kind == lang.BoolCandidateKind) {
					r.Fail("c08:candidate-for-unconstrained-item", "%s candidate %d %q (%s) offered inside the value of an object item whose key is no literal name: no attribute, hence no constraint, applies there\n%s", cl, i, cd.Label, cd.Kind, clip(text, 900))
					continue
				}
				switch cd.Kind {
				case lang.ReferenceCandidateKind:
					refCands++
					r.Class("reference-candidate")
					if strings.Contains(cd.Label, `\"`) {
						r.Class("candidate-label-with-escaped-quote")
					}
					abs, locs := byAddr[cd.Label], byAddr["local:"+cd.Label]
					if len(abs)+len(locs) == 0 {
						r.Fail("c08:ref-not-a-declaration", "%s candidate %d %q is not the address of any collected declaration\n%s", cl, i, cd.Label, clip(text, 900))
						continue
					}
					// the text to insert is the reference itself: it reads back as a traversal denoting the label
					if tr, diags := hclsyntax.ParseTraversalAbs([]byte(cd.TextEdit.NewText), "cand", hcl.InitialPos); diags.HasErrors() {
						r.Fail("c08:ref-text-not-a-reference", "%s candidate %d %q: the text it inserts (%q) does not parse as a reference: %s", cl, i, cd.Label, cd.TextEdit.NewText, diags.Error())
					} else if addr, err := lang.TraversalToAddress(tr); err != nil || addr.String() != cd.Label {
						r.Fail("c08:ref-text-denotes-other-address", "%s candidate %d %q: the text it inserts (%q) denotes %q (err %v)", cl, i, cd.Label, cd.TextEdit.NewText, addr.String(), err)
					}
					if !strings.HasPrefix(cd.Label, typed) {
						r.Fail("c08:ref-ignores-typed-text", "%s candidate %d %q does not start with the typed text %q", cl, i, cd.Label, typed)
					}
					// visibility of block-local names
					if len(abs) == 0 {
						r.Class("block-local-candidate")
						visible := false
						for _, t := range locs {
							if t.TargetableFromRangePtr == nil || (t.TargetableFromRangePtr.Filename == f.Name && off >= t.TargetableFromRangePtr.Start.Byte && off <= t.TargetableFromRangePtr.End.Byte) {
								visible = true
							}
						}
						if !visible {
							r.Fail("c08:local-not-visible", "%s candidate %d %q is a block-local name of another block (not visible from the cursor)\n%s", cl, i, cd.Label, clip(text, 900))
						}
						if strings.HasPrefix(cd.Label, "self") && !loc.BC.SelfRefs {
							r.Fail("c08:self-not-enabled", "%s candidate %d %q offered although the body does not enable self references\n%s", cl, i, cd.Label, clip(text, 900))
						}
					}
					// never a declaration of the outermost block around the cursor (the block itself or
					// anything declared inside it, at any nesting depth): the library's own rule for what
					// is visible ("references pointing back to the same block")
					if ob := outermostBlockAt(body, off); ob != nil && len(abs) > 0 && len(locs) == 0 {
						obr, bb := ob.Range(), ob.Body.Range()
						if bb.Start.Byte < off && off < bb.End.Byte && bb.End.Byte == obr.End.Byte {
							r.Class("absolute-candidate-with-cursor-inside-a-block")
							if ob.Body.Blocks != nil && innerBlockAt(ob.Body, off) {
								r.Class("absolute-candidate-with-cursor-two-blocks-deep")
							}
							allInside := true
							for _, t := range abs {
								in := t.RangePtr != nil && t.RangePtr.Filename == f.Name &&
									((t.RangePtr.Start.Byte >= bb.Start.Byte && t.RangePtr.Start.Byte < bb.End.Byte) ||
										(t.RangePtr.Start.Byte == obr.Start.Byte && t.RangePtr.End.Byte == obr.End.Byte))
								if !in {
									allInside = false
								}
							}
							if allInside {
								r.Fail("c08:offers-enclosing-block-declaration", "%s candidate %d %q is declared by the outermost block around the cursor (the block itself or something inside it): not visible from there\n%s", cl, i, cd.Label, clip(text, 900))
							}
						}
					}
					// never the attribute being edited itself
					all := append(append([]reference.Target{}, abs...), locs...)
					onlySelf := true
					for _, t := range all {
						if t.RangePtr == nil || !(t.RangePtr.Filename == f.Name && t.RangePtr.Start.Byte == a.SrcRange.Start.Byte && t.RangePtr.End.Byte == a.SrcRange.End.Byte) {
							onlySelf = false
						}
					}
					if onlySelf {
						r.Fail("c08:offers-edited-attribute", "%s candidate %d %q is the attribute being edited itself\n%s", cl, i, cd.Label, clip(text, 900))
					}
					// scope / type: the declaration or one nested below it fits
					if exp.known && (len(exp.types) > 0 || exp.typeless) {
						r.Class("expectation-known")
						ok := false
						for _, t := range all {
							if anyNestedFits(exp, t, 0) {
								ok = true
							}
						}
						if !ok {
							r.Fail("c08:ref-does-not-fit", "%s candidate %d %q: neither the declaration nor anything nested below it satisfies the expected scope/type of %q (%s)\n%s", cl, i, cd.Label, a.Name, describeCons(valCons), clip(text, 900))
						}
						// ---- round trip: a declaration that itself fits resolves back
						var fit *reference.Target
						for k := range abs {
							if exp.fits(abs[k]) && abs[k].RangePtr != nil {
								fit = &abs[k]
							}
						}
						// (not inside call arguments: text inserted in front of a following argument
						// such as ["x"] fuses with it into an index expression)
						// (a small budget per case; labels that need quoting / escaping when written get their own)
						special := strings.ContainsAny(cd.Label, "\"\\ ") || !isASCII(cd.Label)
						if fit != nil && (roundTrips < 4 || special && specialTrips < 4) && !inCallArg && !afterDanglingLine(text, rg.Start.Byte) {
							if special {
								specialTrips++
								r.Class("round-trip-of-label-needing-quotes")
							} else {
								roundTrips++
							}
							newText := text[:rg.Start.Byte] + cd.TextEdit.NewText + text[rg.End.Byte:]
							wm := cloneWorld(c.World)
							for k := range wm.Paths[0].Files {
								if wm.Paths[0].Files[k].Name == f.Name {
									wm.Paths[0].Files[k].Text = newText
								}
							}
							if w2, pi := SafeBuild(func() *world.World { return world.Build(wm) }); pi == nil && insertedIntoSameValue(w2, p.Path, f.Name, a.Name, rg.Start.Byte, rg.Start.Byte+len(cd.TextEdit.NewText)) {
								gd := Exec(w2, w2.Decoder(), Call{Kind: "gotoDef", Path: 0, File: f.Name, Byte: rg.Start.Byte})
								if gd.Panic == nil {
									r.Class("round-trip")
									found := false
									if gd.Err == nil {
										var flat2 []reference.Target
										flattenTargets(w2.Reader.Ctx(p.Path).ReferenceTargets, &flat2, 0)
										for _, rt := range gd.Val.(decoder.ReferenceTargets) {
											for _, t2 := range flat2 {
												if t2.RangePtr != nil && t2.RangePtr.Filename == rt.Range.Filename && t2.RangePtr.Start.Byte == rt.Range.Start.Byte && t2.RangePtr.End.Byte == rt.Range.End.Byte && t2.Addr.String() == cd.Label {
													found = true
												}
											}
										}
									}
									if !found {
										r.Fail("c08:round-trip", "%s: accepting reference candidate %q (a declaration that itself fits %s) yields text where go-to-definition at the inserted reference does not resolve to it (err %v)\n%s", cl, cd.Label, describeCons(as.Cons), gd.Err, clip(newText, 900))
									}
								}
							}
						}
					}
				case lang.FunctionCandidateKind:
					r.Class("function-candidate")
					fn, ok := p.Funcs[cd.Label]
					if !ok {
						r.Fail("c08:unknown-function", "%s candidate %d %q is not a known function", cl, i, cd.Label)
						continue
					}
					if !strings.HasPrefix(cd.Label, typed) {
						r.Fail("c08:func-ignores-typed-text", "%s candidate %d %q does not start with the typed text %q", cl, i, cd.Label, typed)
					}
					if exp.known && len(exp.types) > 0 {
						ok := false
						for _, ty := range exp.types {
							if _, err := convert.Convert(cty.UnknownVal(fn.Ret.Cty()), ty); err == nil {
								ok = true
							}
						}
						if !ok {
							r.Fail("c08:func-return-type", "%s candidate %d %q returns %s which does not convert to the expected type of %q (%s)", cl, i, cd.Label, fn.Ret.Cty().FriendlyName(), a.Name, describeCons(valCons))
						}
					}
				case lang.BoolCandidateKind:
					// (the same kind is used for the type name `bool` in type declarations)
					if exp.known && (cd.Label == "true" || cd.Label == "false") {
						admits := false
						var cs []m.ConsM
						if inCallArg {
							cs = []m.ConsM{{K: "any", Ty: m.TyOf(exp.types[0])}}
						} else {
							flattenCons(valCons, &cs)
						}
						for _, x := range cs {
							if (x.K == "any" || x.K == "littype") && (x.Ty.Cty() == cty.Bool || x.Ty.Cty() == cty.DynamicPseudoType) {
								admits = true
							}
							if x.K == "litval" && x.Val.Cty().Type() == cty.Bool {
								admits = true
							}
						}
						if !admits {
							r.Fail("c08:bool-not-admitted", "%s candidate %d %q offered although the constraint of %q (%s) admits no boolean", cl, i, cd.Label, a.Name, describeCons(valCons))
						}
					}
				}
			}
			_ = cursorPos
			if len(r.Failures) > 5 {
				return r
			}
		}
	}
	r.NonTrivial = refCands > 0
	return r
}

func describeCons(c m.ConsM) string {
	switch c.K {
	case "any", "littype":
		return fmt.Sprintf("%s %s", c.K, c.Ty.Cty().FriendlyName())
	case "ref":
		t := ""
		if c.Ty != "" {
			t = c.Ty.Cty().FriendlyName()
		}
		return fmt.Sprintf("ref scope=%q type=%s", c.Scope, t)
	case "oneof":
		var parts []string
		for _, e := range c.Elems {
			parts = append(parts, describeCons(e))
		}
		return "oneof[" + strings.Join(parts, " | ") + "]"
	}
	return c.K
}

var _ = hcl.Pos{}

func TestC08(t *testing.T)        { Run(t, "C08", genC08, checkC08) }
func TestReplay_C08(t *testing.T) { Replay(t, "C08", checkC08) }

func isASCII(s string) bool {
	for i := 0; i < len(s); i++ {
		if s[i] >= 0x80 {
			return false
		}
	}
	return true
}

// insertedIntoSameValue reports whether, in the edited text, the inserted range s-e lies inside the
// value of an attribute of the given name (in half-typed text an insertion on a following line can
// end up as the start of the next item instead).
func insertedIntoSameValue(w2 *world.World, path, file, attr string, s, e int) bool {
	pc := w2.Reader.Ctx(path)
	if pc == nil || pc.Files[file] == nil {
		return false
	}
	body, ok := pc.Files[file].Body.(*hclsyntax.Body)
	if !ok {
		return false
	}
	found := false
	_ = hclsyntax.VisitAll(body, func(n hclsyntax.Node) hcl.Diagnostics {
		if at, ok := n.(*hclsyntax.Attribute); ok && at.Name == attr {
			if er := at.Expr.Range(); er.Start.Byte <= s && e <= er.End.Byte && at.EqualsRange.End.Byte <= s {
				found = true
			}
		}
		return nil
	})
	return found
}

// afterDanglingLine reports whether the insertion point sits on a fresh line behind something other
// than an opening bracket or a comma ("flag = <newline> |"): a value cannot continue there, so text
// inserted at that point starts the next item instead of completing the value.
func afterDanglingLine(text string, at int) bool {
	i := at - 1
	for i >= 0 && (text[i] == ' ' || text[i] == '\t' || text[i] == '\r') {
		i--
	}
	if i < 0 || text[i] != '\n' {
		return false
	}
	for i >= 0 && (text[i] == ' ' || text[i] == '\t' || text[i] == '\r' || text[i] == '\n') {
		i--
	}
	if i < 0 {
		return true
	}
	switch text[i] {
	case '[', '(', '{', ',':
		return false
	}
	return true
}

// interpolationAtCursor returns the interpolated part of a template that holds the cursor.
func interpolationAtCursor(e hclsyntax.Expression, off int) hclsyntax.Expression {
	in := func(x hclsyntax.Expression) bool {
		rg := x.Range()
		return rg.Start.Byte <= off && off <= rg.End.Byte
	}
	switch t := e.(type) {
	case *hclsyntax.TemplateWrapExpr:
		if in(t.Wrapped) {
			return t.Wrapped
		}
	case *hclsyntax.TemplateExpr:
		for _, p := range t.Parts {
			if _, lit := p.(*hclsyntax.LiteralValueExpr); lit {
				continue
			}
			if in(p) {
				return p
			}
		}
	}
	return nil
}

// outermostBlockAt: the top-level block of the file whose extent holds the offset.
func outermostBlockAt(body *hclsyntax.Body, off int) *hclsyntax.Block {
	for _, b := range body.Blocks {
		if rg := b.Range(); rg.Start.Byte <= off && off <= rg.End.Byte {
			return b
		}
	}
	return nil
}

// innerBlockAt: the offset lies inside a block nested in the body.
func innerBlockAt(body *hclsyntax.Body, off int) bool {
	for _, b := range body.Blocks {
		if rg := b.Body.Range(); rg.Start.Byte < off && off < rg.End.Byte {
			return true
		}
	}
	return false
}
