package model

import (
	"fmt"

	"github.com/hashicorp/hcl-lang/lang"
	"github.com/hashicorp/hcl-lang/schema"
	"github.com/hashicorp/hcl/v2"
	"github.com/hashicorp/hcl/v2/hclsyntax"
	"github.com/zclconf/go-cty/cty"
	"github.com/zclconf/go-cty/cty/function"
)

func md(s string) lang.MarkupContent {
	if s == "" {
		return lang.MarkupContent{}
	}
	return lang.Markdown(s)
}

// ParseAddr turns traversal text (`a.b[0]["k"]`) into a lang.Address.
func ParseAddr(s string) lang.Address {
	if s == "" {
		return lang.Address{}
	}
	tr, diags := hclsyntax.ParseTraversalAbs([]byte(s), "addr", hcl.InitialPos)
	if diags.HasErrors() {
		panic(fmt.Sprintf("model: bad address %q: %s", s, diags.Error()))
	}
	a, err := lang.TraversalToAddress(tr)
	if err != nil {
		panic(fmt.Sprintf("model: bad address %q: %s", s, err))
	}
	return a
}

func mods(m []string) lang.SemanticTokenModifiers {
	if m == nil {
		return nil
	}
	// (spare capacity: an append to a caller-supplied slice must not write into the caller's array)
	out := make(lang.SemanticTokenModifiers, len(m), len(m)+2)
	for i, s := range m {
		out[i] = lang.SemanticTokenModifier(s)
	}
	return out
}

func buildSteps(steps []StepM) schema.Address {
	if steps == nil {
		return nil
	}
	out := make(schema.Address, 0, len(steps)+2) // (spare capacity, see mods)
	for _, s := range steps {
		switch s.K {
		case "static":
			out = append(out, schema.StaticStep{Name: s.Name})
		case "label":
			out = append(out, schema.LabelStep{Index: s.Index})
		case "attrname":
			out = append(out, schema.AttrNameStep{})
		case "attrvalue":
			out = append(out, schema.AttrValueStep{Name: s.Name, IsOptional: s.Optional})
		default:
			panic("model: unknown step kind " + s.K)
		}
	}
	return out
}

func (c ConsM) Build() schema.Constraint {
	switch c.K {
	case "any":
		return schema.AnyExpression{OfType: c.Ty.Cty(), SkipLiteralComplexTypes: c.Skip}
	case "ref":
		r := schema.Reference{OfScopeId: lang.ScopeId(c.Scope), OfType: c.Ty.Cty(), Name: c.Name}
		if c.AddrScope != "" {
			r.Address = &schema.ReferenceAddrSchema{ScopeId: lang.ScopeId(c.AddrScope)}
		}
		return r
	case "littype":
		return schema.LiteralType{Type: c.Ty.Cty(), SkipComplexTypes: c.Skip}
	case "litval":
		return schema.LiteralValue{Value: c.Val.Cty(), IsDeprecated: c.Deprecated, Description: md(c.Desc)}
	case "keyword":
		return schema.Keyword{Keyword: c.Kw, Name: c.Name, Description: md(c.Desc)}
	case "typedecl":
		return schema.TypeDeclaration{}
	case "list":
		l := schema.List{Description: md(c.Desc), MinItems: c.Min, MaxItems: c.Max}
		if c.Elem != nil {
			l.Elem = c.Elem.Build()
		}
		return l
	case "set":
		l := schema.Set{Description: md(c.Desc), MinItems: c.Min, MaxItems: c.Max}
		if c.Elem != nil {
			l.Elem = c.Elem.Build()
		}
		return l
	case "map":
		l := schema.Map{Name: c.Name, Description: md(c.Desc), MinItems: c.Min, MaxItems: c.Max, AllowInterpolatedKeys: c.AllowInterpKeys}
		if c.Elem != nil {
			l.Elem = c.Elem.Build()
		}
		return l
	case "tuple":
		t := schema.Tuple{Description: md(c.Desc), Elems: make([]schema.Constraint, 0, len(c.Elems)+2)}
		for _, e := range c.Elems {
			t.Elems = append(t.Elems, e.Build())
		}
		return t
	case "object":
		o := schema.Object{Name: c.Name, Description: md(c.Desc), AllowInterpolatedKeys: c.AllowInterpKeys}
		if c.Attrs != nil {
			o.Attributes = make(schema.ObjectAttributes, len(c.Attrs))
			for n, a := range c.Attrs {
				o.Attributes[n] = a.Build()
			}
		}
		return o
	case "oneof":
		o := make(schema.OneOf, 0, len(c.Elems)+2) // (spare capacity, see mods)
		for _, e := range c.Elems {
			o = append(o, e.Build())
		}
		return o
	}
	panic("model: unknown constraint kind " + c.K)
}

func (a AttrM) Build() *schema.AttributeSchema {
	as := &schema.AttributeSchema{
		Description:            md(a.Desc),
		IsRequired:             a.Flag == "required",
		IsOptional:             a.Flag == "optional" || a.Flag == "optional+computed",
		IsComputed:             a.Flag == "computed" || a.Flag == "optional+computed",
		IsDeprecated:           a.Deprecated,
		IsSensitive:            a.Sensitive,
		IsWriteOnly:            a.WriteOnly,
		IsDepKey:               a.DepKey,
		Constraint:             a.Cons.Build(),
		SemanticTokenModifiers: mods(a.Mods),
	}
	if a.Default != nil {
		as.DefaultValue = schema.DefaultValue{Value: a.Default.Cty()}
	}
	if a.Addr != nil {
		as.Address = &schema.AttributeAddrSchema{
			Steps:        buildSteps(a.Addr.Steps),
			FriendlyName: a.Addr.FriendlyName,
			ScopeId:      lang.ScopeId(a.Addr.Scope),
			AsExprType:   a.Addr.AsExprType,
			AsReference:  a.Addr.AsReference,
		}
	}
	if a.OriginFor != nil {
		as.OriginForTarget = &schema.PathTarget{
			Address: buildSteps(a.OriginFor.Steps),
			Path:    lang.Path{Path: a.OriginFor.Path},
			Constraints: schema.Constraints{
				ScopeId: lang.ScopeId(a.OriginFor.Scope),
				Type:    a.OriginFor.Ty.Cty(),
			},
		}
	}
	if a.Hooks != nil {
		as.CompletionHooks = make(lang.CompletionHooks, len(a.Hooks), len(a.Hooks)+2)
		for i, h := range a.Hooks {
			as.CompletionHooks[i] = lang.CompletionHook{Name: h}
		}
	}
	return as
}

func (l LabelM) Build() *schema.LabelSchema {
	return &schema.LabelSchema{
		Name:                   l.Name,
		Description:            md(l.Desc),
		SemanticTokenModifiers: mods(l.Mods),
		IsDepKey:               l.DepKey,
		Completable:            l.Completable,
	}
}

func BlockType(s string) schema.BlockType {
	switch s {
	case "list":
		return schema.BlockTypeList
	case "set":
		return schema.BlockTypeSet
	case "map":
		return schema.BlockTypeMap
	case "object":
		return schema.BlockTypeObject
	}
	return schema.BlockTypeNil
}

func (d DepM) Keys() schema.DependencyKeys {
	dk := schema.DependencyKeys{}
	for _, l := range d.Labels {
		dk.Labels = append(dk.Labels, schema.LabelDependent{Index: l.Index, Value: l.Value})
	}
	for _, a := range d.Attrs {
		ad := schema.AttributeDependent{Name: a.Name}
		if a.Static != nil {
			ad.Expr.Static = a.Static.Cty()
		} else {
			ad.Expr.Address = ParseAddr(a.Addr)
		}
		dk.Attributes = append(dk.Attributes, ad)
	}
	return dk
}

func (d DepM) Key() schema.SchemaKey { return schema.NewSchemaKey(d.Keys()) }

func (b BlockM) Build() *schema.BlockSchema {
	bs := &schema.BlockSchema{
		Type:                   BlockType(b.Type),
		SemanticTokenModifiers: mods(b.Mods),
		Description:            md(b.Desc),
		IsDeprecated:           b.Deprecated,
		MinItems:               b.Min,
		MaxItems:               b.Max,
	}
	if b.Labels != nil {
		bs.Labels = make([]*schema.LabelSchema, len(b.Labels), len(b.Labels)+2)
		for i, l := range b.Labels {
			bs.Labels[i] = l.Build()
		}
	}
	if b.Body != nil {
		bs.Body = b.Body.Build()
	}
	if b.Deps != nil {
		bs.DependentBody = make(map[schema.SchemaKey]*schema.BodySchema, len(b.Deps))
		for _, d := range b.Deps {
			bs.DependentBody[d.Key()] = d.Body.Build()
		}
	}
	if b.Addr != nil {
		a := b.Addr
		bs.Address = &schema.BlockAddrSchema{
			Steps:                    buildSteps(a.Steps),
			FriendlyName:             a.FriendlyName,
			ScopeId:                  lang.ScopeId(a.Scope),
			AsReference:              a.AsReference,
			BodyAsData:               a.BodyAsData,
			InferBody:                a.InferBody,
			BodySelfRef:              a.BodySelfRef,
			DependentBodyAsData:      a.DepBodyAsData,
			InferDependentBody:       a.InferDepBody,
			SupportUnknownNestedRefs: a.UnknownNestedRefs,
			DependentBodySelfRef:     a.DepBodySelfRef,
		}
		if a.HasAsTypeOf {
			bs.Address.AsTypeOf = &schema.BlockAsTypeOf{AttributeExpr: a.AsTypeOf}
		}
	}
	return bs
}

func (t TargetableM) Build() *schema.Targetable {
	tt := &schema.Targetable{
		Address:      ParseAddr(t.Addr),
		ScopeId:      lang.ScopeId(t.Scope),
		AsType:       t.Ty.Cty(),
		IsSensitive:  t.Sensitive,
		FriendlyName: t.Friendly,
		Description:  md(t.Desc),
	}
	if t.Nested != nil {
		tt.NestedTargetables = make(schema.Targetables, len(t.Nested))
		for i, n := range t.Nested {
			tt.NestedTargetables[i] = n.Build()
		}
	}
	return tt
}

func (r RangeM) HCL() hcl.Range {
	return hcl.Range{
		Filename: r.File,
		Start:    hcl.Pos{Line: r.SL, Column: r.SC, Byte: r.SB},
		End:      hcl.Pos{Line: r.EL, Column: r.EC, Byte: r.EB},
	}
}

func (b BodyM) Build() *schema.BodySchema {
	bs := &schema.BodySchema{
		IsDeprecated: b.Deprecated,
		Detail:       b.Detail,
		Description:  md(b.Desc),
		HoverURL:     b.HoverURL,
	}
	if b.Attrs != nil {
		bs.Attributes = make(map[string]*schema.AttributeSchema, len(b.Attrs))
		for n, a := range b.Attrs {
			bs.Attributes[n] = a.Build()
		}
	}
	if b.AnyAttr != nil {
		bs.AnyAttribute = b.AnyAttr.Build()
	}
	if b.Blocks != nil {
		bs.Blocks = make(map[string]*schema.BlockSchema, len(b.Blocks))
		for n, bl := range b.Blocks {
			bs.Blocks[n] = bl.Build()
		}
	}
	if b.Ext != nil {
		bs.Extensions = &schema.BodyExtensions{
			Count: b.Ext.Count, ForEach: b.Ext.ForEach, DynamicBlocks: b.Ext.Dynamic, SelfRefs: b.Ext.SelfRefs,
		}
	}
	if b.TargetableAs != nil {
		bs.TargetableAs = make(schema.Targetables, len(b.TargetableAs), len(b.TargetableAs)+2)
		for i, t := range b.TargetableAs {
			bs.TargetableAs[i] = t.Build()
		}
	}
	if b.DocsLink != nil {
		bs.DocsLink = &schema.DocsLink{URL: b.DocsLink.URL, Tooltip: b.DocsLink.Tooltip}
	}
	if b.Targets != nil {
		bs.Targets = &schema.Target{Path: lang.Path{Path: b.Targets.Path}, Range: b.Targets.Range.HCL()}
	}
	if b.Implied != nil {
		bs.ImpliedOrigins = make(schema.ImpliedOrigins, len(b.Implied), len(b.Implied)+2)
		for i, im := range b.Implied {
			bs.ImpliedOrigins[i] = schema.ImpliedOrigin{
				OriginAddress: ParseAddr(im.Origin),
				TargetAddress: ParseAddr(im.Target),
				Path:          lang.Path{Path: im.Path},
				Constraints:   schema.Constraints{ScopeId: lang.ScopeId(im.Scope), Type: im.Ty.Cty()},
			}
		}
	}
	return bs
}

func (f FuncM) Build() schema.FunctionSignature {
	fs := schema.FunctionSignature{Description: f.Desc, ReturnType: f.Ret.Cty()}
	for _, p := range f.Params {
		fs.Params = append(fs.Params, function.Parameter{Name: p.Name, Type: p.Ty.Cty(), Description: p.Desc})
	}
	if f.VarParam != nil {
		fs.VarParam = &function.Parameter{Name: f.VarParam.Name, Type: f.VarParam.Ty.Cty(), Description: f.VarParam.Desc}
	}
	return fs
}

var _ = cty.String
