// Package model holds the serialisable models from which schemas, path
// contexts and worlds are built. Everything here is plain data so that a
// failing case can be stored as JSON and replayed without rapid.
package model

import (
	"encoding/json"
	"fmt"

	"github.com/zclconf/go-cty/cty"
	ctyjson "github.com/zclconf/go-cty/cty/json"
)

// TyM is a cty type in its JSON encoding (e.g. `"string"`, `["list","number"]`).
// The empty string denotes cty.NilType.
type TyM string

func TyOf(t cty.Type) TyM {
	if t == cty.NilType {
		return ""
	}
	b, err := t.MarshalJSON()
	if err != nil {
		panic(fmt.Sprintf("model: cannot marshal type %#v: %s", t, err))
	}
	return TyM(b)
}

func (t TyM) Cty() cty.Type {
	if t == "" {
		return cty.NilType
	}
	var ty cty.Type
	if err := ty.UnmarshalJSON([]byte(t)); err != nil {
		panic(fmt.Sprintf("model: bad type %q: %s", string(t), err))
	}
	return ty
}

// ValM is a known, non-null cty value.
type ValM struct {
	Ty TyM             `json:"ty"`
	V  json.RawMessage `json:"v"`
}

func ValOf(v cty.Value) ValM {
	b, err := ctyjson.Marshal(v, v.Type())
	if err != nil {
		panic(fmt.Sprintf("model: cannot marshal value %#v: %s", v, err))
	}
	return ValM{Ty: TyOf(v.Type()), V: b}
}

func (v ValM) Cty() cty.Value {
	val, err := ctyjson.Unmarshal(v.V, v.Ty.Cty())
	if err != nil {
		panic(fmt.Sprintf("model: bad value %s of %s: %s", string(v.V), string(v.Ty), err))
	}
	return val
}

// ConsM models one of the 12 constraint kinds.
type ConsM struct {
	K string `json:"k"` // any|ref|littype|litval|keyword|typedecl|list|set|tuple|map|object|oneof

	Ty        TyM    `json:"ty,omitempty"`        // any.OfType, littype.Type, ref.OfType
	Scope     string `json:"scope,omitempty"`     // ref.OfScopeId
	AddrScope string `json:"addrScope,omitempty"` // ref.Address.ScopeId
	Name      string `json:"name,omitempty"`      // ref/keyword/map/object Name
	Skip      bool   `json:"skip,omitempty"`      // SkipLiteralComplexTypes / SkipComplexTypes
	Val       *ValM  `json:"val,omitempty"`       // litval
	Kw        string `json:"kw,omitempty"`        // keyword

	Elem  *ConsM           `json:"elem,omitempty"`  // list/set/map
	Elems []ConsM          `json:"elems,omitempty"` // tuple/oneof
	Attrs map[string]AttrM `json:"attrs,omitempty"` // object

	AllowInterpKeys bool   `json:"aik,omitempty"`
	Min             uint64 `json:"min,omitempty"`
	Max             uint64 `json:"max,omitempty"`
	Deprecated      bool   `json:"deprecated,omitempty"`
	Desc            string `json:"desc,omitempty"`
}

// StepM is one step of a schema.Address.
type StepM struct {
	K        string `json:"k"` // static|label|attrname|attrvalue
	Name     string `json:"name,omitempty"`
	Index    uint   `json:"index,omitempty"`
	Optional bool   `json:"optional,omitempty"`
}

type AttrAddrM struct {
	Steps        []StepM `json:"steps"`
	FriendlyName string  `json:"friendly,omitempty"`
	Scope        string  `json:"scope,omitempty"`
	AsExprType   bool    `json:"asExprType,omitempty"`
	AsReference  bool    `json:"asReference,omitempty"`
}

type PathTargetM struct {
	Steps []StepM `json:"steps"`
	Path  string  `json:"path"`
	Scope string  `json:"scope,omitempty"`
	Ty    TyM     `json:"ty,omitempty"`
}

type AttrM struct {
	Flag       string       `json:"flag"` // required|optional|computed|optional+computed
	Deprecated bool         `json:"deprecated,omitempty"`
	Sensitive  bool         `json:"sensitive,omitempty"`
	WriteOnly  bool         `json:"writeOnly,omitempty"`
	DepKey     bool         `json:"depKey,omitempty"`
	Cons       ConsM        `json:"cons"`
	Default    *ValM        `json:"default,omitempty"`
	Addr       *AttrAddrM   `json:"addr,omitempty"`
	OriginFor  *PathTargetM `json:"originFor,omitempty"`
	Mods       []string     `json:"mods,omitempty"`
	Hooks      []string     `json:"hooks,omitempty"`
	Desc       string       `json:"desc,omitempty"`
}

func (a AttrM) Required() bool { return a.Flag == "required" }
func (a AttrM) Optional() bool { return a.Flag == "optional" || a.Flag == "optional+computed" }
func (a AttrM) Computed() bool { return a.Flag == "computed" || a.Flag == "optional+computed" }

type LabelM struct {
	Name        string   `json:"name"`
	DepKey      bool     `json:"depKey,omitempty"`
	Completable bool     `json:"completable,omitempty"`
	Mods        []string `json:"mods,omitempty"`
	Desc        string   `json:"desc,omitempty"`
}

type LabelKeyM struct {
	Index int    `json:"index"`
	Value string `json:"value"`
}

// AttrKeyM is an attribute dependency key: either a static value or a
// traversal (written as HCL traversal text, e.g. `a.b`).
type AttrKeyM struct {
	Name   string `json:"name"`
	Static *ValM  `json:"static,omitempty"`
	Addr   string `json:"addr,omitempty"`
}

type DepM struct {
	Labels []LabelKeyM `json:"labels,omitempty"`
	Attrs  []AttrKeyM  `json:"attrs,omitempty"`
	Body   BodyM       `json:"body"`
}

type BlockAddrM struct {
	Steps             []StepM `json:"steps"`
	FriendlyName      string  `json:"friendly,omitempty"`
	Scope             string  `json:"scope,omitempty"`
	AsReference       bool    `json:"asReference,omitempty"`
	BodyAsData        bool    `json:"bodyAsData,omitempty"`
	InferBody         bool    `json:"inferBody,omitempty"`
	BodySelfRef       bool    `json:"bodySelfRef,omitempty"`
	AsTypeOf          string  `json:"asTypeOf,omitempty"` // attribute name; "" = none
	HasAsTypeOf       bool    `json:"hasAsTypeOf,omitempty"`
	DepBodyAsData     bool    `json:"depBodyAsData,omitempty"`
	InferDepBody      bool    `json:"inferDepBody,omitempty"`
	UnknownNestedRefs bool    `json:"unknownNestedRefs,omitempty"`
	DepBodySelfRef    bool    `json:"depBodySelfRef,omitempty"`
}

type BlockM struct {
	Labels     []LabelM    `json:"labels,omitempty"`
	Type       string      `json:"type,omitempty"` // ""|list|set|map|object
	Body       *BodyM      `json:"body,omitempty"`
	Deps       []DepM      `json:"deps,omitempty"`
	Min        uint64      `json:"min,omitempty"`
	Max        uint64      `json:"max,omitempty"`
	Addr       *BlockAddrM `json:"addr,omitempty"`
	Deprecated bool        `json:"deprecated,omitempty"`
	Mods       []string    `json:"mods,omitempty"`
	Desc       string      `json:"desc,omitempty"`
}

type ExtM struct {
	Count    bool `json:"count,omitempty"`
	ForEach  bool `json:"forEach,omitempty"`
	Dynamic  bool `json:"dynamic,omitempty"`
	SelfRefs bool `json:"selfRefs,omitempty"`
}

type TargetableM struct {
	Addr      string        `json:"addr"` // traversal text
	Scope     string        `json:"scope,omitempty"`
	Ty        TyM           `json:"ty,omitempty"`
	Sensitive bool          `json:"sensitive,omitempty"`
	Friendly  string        `json:"friendly,omitempty"`
	Desc      string        `json:"desc,omitempty"`
	Nested    []TargetableM `json:"nested,omitempty"`
}

type LinkM struct {
	URL     string `json:"url"`
	Tooltip string `json:"tooltip,omitempty"`
}

type RangeM struct {
	File       string `json:"file"`
	SL, SC, SB int
	EL, EC, EB int
}

type TargetM struct {
	Path  string `json:"path"`
	Range RangeM `json:"range"`
}

type ImpliedM struct {
	Origin string `json:"origin"` // traversal text
	Target string `json:"target"`
	Path   string `json:"path"`
	Scope  string `json:"scope,omitempty"`
	Ty     TyM    `json:"ty,omitempty"`
}

type BodyM struct {
	Attrs        map[string]AttrM  `json:"attrs,omitempty"`
	AnyAttr      *AttrM            `json:"anyAttr,omitempty"`
	Blocks       map[string]BlockM `json:"blocks,omitempty"`
	Ext          *ExtM             `json:"ext,omitempty"`
	TargetableAs []TargetableM     `json:"targetableAs,omitempty"`
	DocsLink     *LinkM            `json:"docsLink,omitempty"`
	HoverURL     string            `json:"hoverURL,omitempty"`
	Detail       string            `json:"detail,omitempty"`
	Desc         string            `json:"desc,omitempty"`
	Deprecated   bool              `json:"deprecated,omitempty"`
	Targets      *TargetM          `json:"targets,omitempty"`
	Implied      []ImpliedM        `json:"implied,omitempty"`
}

type ParamM struct {
	Name string `json:"name"`
	Ty   TyM    `json:"ty"`
	Desc string `json:"desc,omitempty"`
}

type FuncM struct {
	Params   []ParamM `json:"params,omitempty"`
	VarParam *ParamM  `json:"varParam,omitempty"`
	Ret      TyM      `json:"ret"`
	Desc     string   `json:"desc,omitempty"`
}

type FileM struct {
	Name string `json:"name"`
	Text string `json:"text"`
	JSON bool   `json:"json,omitempty"`
}

// HookM describes a completion hook registered in the decoder context.
type HookM struct {
	N   int  `json:"n"`             // number of candidates returned
	Err bool `json:"err,omitempty"` // hook returns an error
}

type PathM struct {
	Path       string           `json:"path"`
	LanguageID string           `json:"lang,omitempty"`
	Schema     *BodyM           `json:"schema,omitempty"`
	Files      []FileM          `json:"files"`
	Funcs      map[string]FuncM `json:"funcs,omitempty"`
	Validators bool             `json:"validators,omitempty"`
	Faulty     bool             `json:"faulty,omitempty"` // PathContext returns an error
}

type CtxM struct {
	UtmSource     string           `json:"utmSource,omitempty"`
	UtmMedium     string           `json:"utmMedium,omitempty"`
	UseUtmContent bool             `json:"useUtmContent,omitempty"`
	Hooks         map[string]HookM `json:"hooks,omitempty"`
}

type WorldM struct {
	Paths []PathM `json:"paths"`
	Ctx   CtxM    `json:"ctx"`
}
