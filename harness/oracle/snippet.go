package oracle

import (
	"fmt"
	"sort"
)

// TabStops extracts the tab-stop numbers of an LSP snippet: $n, ${n}, ${n:default}
// (defaults may nest further stops). A backslash escapes the next character.
func TabStops(snippet string) []int {
	var out []int
	for i := 0; i < len(snippet); i++ {
		c := snippet[i]
		if c == '\\' {
			i++
			continue
		}
		if c != '$' || i+1 >= len(snippet) {
			continue
		}
		j := i + 1
		if snippet[j] == '{' {
			j++
		}
		k := j
		for k < len(snippet) && snippet[k] >= '0' && snippet[k] <= '9' {
			k++
		}
		if k == j {
			continue
		}
		n := 0
		fmt.Sscanf(snippet[j:k], "%d", &n)
		out = append(out, n)
		i = k - 1
	}
	return out
}

// HasTabStopSyntax reports whether plain text contains anything a client would
// interpret as a tab stop.
func HasTabStopSyntax(text string) bool { return len(TabStops(text)) > 0 }

// CheckTabStops validates the statement's rule: the non-zero stops form a run of
// consecutive numbers, each used at most once; the final stop 0 is set aside.
func CheckTabStops(snippet string) error {
	stops := TabStops(snippet)
	seen := map[int]int{}
	var nz []int
	for _, s := range stops {
		if s == 0 {
			continue
		}
		seen[s]++
		if seen[s] == 1 {
			nz = append(nz, s)
		}
	}
	for s, n := range seen {
		if n > 1 {
			return fmt.Errorf("tab stop %d is used %d times", s, n)
		}
	}
	sort.Ints(nz)
	for i := 1; i < len(nz); i++ {
		if nz[i] != nz[i-1]+1 {
			return fmt.Errorf("tab stops are not consecutive: %v", nz)
		}
	}
	return nil
}
