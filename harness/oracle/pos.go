// Package oracle holds checkers shared by several properties: position and
// range consistency, deep snapshots, result normalisation, snippet parsing.
package oracle

import (
	"fmt"
	"reflect"

	"github.com/apparentlymart/go-textseg/v15/textseg"
	"github.com/hashicorp/hcl/v2"
	"github.com/hashicorp/hcl/v2/hclsyntax"
)

// PosAt computes the position of a byte offset independently of hcl-lang:
// line = 1 + number of "\n" before the offset (a "\r\n" pair is one cluster),
// column = 1 + number of grapheme clusters between the line start and the offset.
func PosAt(src []byte, off int) hcl.Pos {
	if off < 0 {
		off = 0
	}
	if off > len(src) {
		off = len(src)
	}
	line := 1
	lineStart := 0
	for i := 0; i < off; i++ {
		if src[i] == '\n' {
			line++
			lineStart = i + 1
		}
	}
	col := 1
	b := src[lineStart:off]
	for len(b) > 0 {
		adv, _, _ := textseg.ScanGraphemeClusters(b, true)
		if adv <= 0 {
			break
		}
		col++
		b = b[adv:]
	}
	return hcl.Pos{Line: line, Column: col, Byte: off}
}

// PosModelOK reports whether PosAt agrees with the positions HCL's own lexer
// assigns to every token of src (it can differ when a grapheme cluster spans a
// token boundary, which the lexer counts per token). Callers use it to restrict
// position-exactness checks to files where the independent model is valid.
func PosModelOK(src []byte, filename string) bool {
	toks, _ := hclsyntax.LexConfig(src, filename, hcl.InitialPos)
	for _, tk := range toks {
		for _, p := range []hcl.Pos{tk.Range.Start, tk.Range.End} {
			if p.Byte < 0 || p.Byte > len(src) {
				return false
			}
			if q := PosAt(src, p.Byte); q != p {
				return false
			}
		}
	}
	return true
}

// RangeProblem describes why a range is not a real, self-consistent place.
type RangeProblem struct {
	Where string
	Range hcl.Range
	Msg   string
}

func (p RangeProblem) String() string {
	return fmt.Sprintf("%s: %s (range %s:%d,%d@%d-%d,%d@%d)", p.Where, p.Msg, p.Range.Filename,
		p.Range.Start.Line, p.Range.Start.Column, p.Range.Start.Byte,
		p.Range.End.Line, p.Range.End.Column, p.Range.End.Byte)
}

// CheckRange checks filename membership, 0 <= start <= end <= len and that
// line/column agree with the byte offsets.
func CheckRange(where string, r hcl.Range, files map[string][]byte) *RangeProblem {
	src, ok := files[r.Filename]
	if !ok {
		return &RangeProblem{where, r, fmt.Sprintf("file %q is not a file of the path", r.Filename)}
	}
	if r.Start.Byte < 0 || r.End.Byte > len(src) || r.Start.Byte > r.End.Byte {
		return &RangeProblem{where, r, fmt.Sprintf("byte offsets out of order or outside file of length %d", len(src))}
	}
	if want := PosAt(src, r.Start.Byte); want != r.Start {
		return &RangeProblem{where, r, fmt.Sprintf("start line/column should be %d,%d", want.Line, want.Column)}
	}
	if want := PosAt(src, r.End.Byte); want != r.End {
		return &RangeProblem{where, r, fmt.Sprintf("end line/column should be %d,%d", want.Line, want.Column)}
	}
	return nil
}

var (
	rangeType    = reflect.TypeOf(hcl.Range{})
	rangePtrType = reflect.TypeOf(&hcl.Range{})
)

// WalkRanges calls f for every hcl.Range / *hcl.Range reachable through
// exported fields, slices, arrays, maps, pointers and interfaces of v.
// skip may veto descending into a struct field (by field name).
func WalkRanges(v interface{}, skip func(path string, field string) bool, f func(path string, r hcl.Range)) {
	seen := map[uintptr]bool{}
	walkRanges(reflect.ValueOf(v), "", skip, f, seen, 0)
}

func walkRanges(v reflect.Value, path string, skip func(string, string) bool, f func(string, hcl.Range), seen map[uintptr]bool, depth int) {
	if !v.IsValid() || depth > 64 {
		return
	}
	switch v.Type() {
	case rangeType:
		f(path, v.Interface().(hcl.Range))
		return
	case rangePtrType:
		if !v.IsNil() {
			f(path, *(v.Interface().(*hcl.Range)))
		}
		return
	}
	switch v.Kind() {
	case reflect.Ptr:
		if v.IsNil() {
			return
		}
		if seen[v.Pointer()] {
			return
		}
		seen[v.Pointer()] = true
		walkRanges(v.Elem(), path, skip, f, seen, depth+1)
	case reflect.Interface:
		if v.IsNil() {
			return
		}
		walkRanges(v.Elem(), path, skip, f, seen, depth+1)
	case reflect.Struct:
		t := v.Type()
		// cty values/types never contain ranges and have unexported internals
		if t.PkgPath() == "github.com/zclconf/go-cty/cty" {
			return
		}
		for i := 0; i < v.NumField(); i++ {
			sf := t.Field(i)
			if sf.PkgPath != "" { // unexported
				continue
			}
			if skip != nil && skip(path, sf.Name) {
				continue
			}
			walkRanges(v.Field(i), path+"."+sf.Name, skip, f, seen, depth+1)
		}
	case reflect.Slice, reflect.Array:
		for i := 0; i < v.Len(); i++ {
			walkRanges(v.Index(i), fmt.Sprintf("%s[%d]", path, i), skip, f, seen, depth+1)
		}
	case reflect.Map:
		iter := v.MapRange()
		for iter.Next() {
			walkRanges(iter.Value(), fmt.Sprintf("%s[%v]", path, iter.Key().Interface()), skip, f, seen, depth+1)
		}
	}
}
