package oracle

import (
	"fmt"
	"reflect"
	"sort"
	"strings"
	"unsafe"

	"github.com/hashicorp/hcl/v2"
	"github.com/zclconf/go-cty/cty"
)

// Snapshot renders v as a canonical string by a deep reflection walk that
// includes unexported fields, slice contents up to capacity (so writes into
// spare capacity are visible), maps in sorted key order and the pointer
// sharing graph (first visit gets an id, later visits print a back reference).
// Two equal snapshots mean structural identity of everything reachable.
// scratchField names unexported evaluation scratch inside HCL's own AST nodes: the
// parser library memoises the value of a splat's anonymous symbol per evaluation
// context (set and cleared again by SplatExpr.Value under its own lock, leaving an
// empty map where nil was). It is not structure the caller supplied, and HCL guards
// it itself, so it is left out of snapshots.
func scratchField(t reflect.Type, field string) bool {
	return t.PkgPath() == "github.com/hashicorp/hcl/v2/hclsyntax" && t.Name() == "AnonSymbolExpr" && (field == "values" || field == "valuesLock")
}

func Snapshot(v interface{}) string {
	s := &snap{ids: map[uintptr]int{}, withCap: true, withIDs: true}
	s.walk(reflect.ValueOf(v), 0)
	return s.sb.String()
}

// CanonLoose is Canon with nil and empty slices/maps rendered alike.
func CanonLoose(v interface{}) string {
	s := &snap{ids: map[uintptr]int{}, nilEqEmpty: true}
	s.walk(reflect.ValueOf(v), 0)
	return s.sb.String()
}

// CanonShift is Canon with every hcl.Range passed through shift before rendering.
func CanonShift(v interface{}, shift func(hcl.Range) hcl.Range) string {
	s := &snap{ids: map[uintptr]int{}, shift: shift}
	s.walk(reflect.ValueOf(v), 0)
	return s.sb.String()
}

// Canon renders v as a canonical value string (no pointer identities, slices up
// to length only). It is used to compare query results.
func Canon(v interface{}) string {
	s := &snap{ids: map[uintptr]int{}}
	s.walk(reflect.ValueOf(v), 0)
	return s.sb.String()
}

type snap struct {
	sb         strings.Builder
	ids        map[uintptr]int
	withCap    bool
	withIDs    bool
	nilEqEmpty bool
	shift      func(hcl.Range) hcl.Range
}

var (
	ctyValueType = reflect.TypeOf(cty.Value{})
	ctyTypeType  = reflect.TypeOf(cty.Type{})
)

// access returns a value whose Interface() may be called, working around
// read-only (unexported-field) values where possible.
func access(v reflect.Value) (reflect.Value, bool) {
	if v.CanInterface() {
		return v, true
	}
	if v.CanAddr() {
		return reflect.NewAt(v.Type(), unsafe.Pointer(v.UnsafeAddr())).Elem(), true
	}
	return v, false
}

func (s *snap) walk(v reflect.Value, depth int) {
	if !v.IsValid() {
		s.sb.WriteString("<invalid>")
		return
	}
	if depth > 200 {
		s.sb.WriteString("<deep>")
		return
	}
	if s.shift != nil && v.Type() == rangeType {
		pos := func(f reflect.Value) hcl.Pos {
			return hcl.Pos{Line: int(f.Field(0).Int()), Column: int(f.Field(1).Int()), Byte: int(f.Field(2).Int())}
		}
		rg := s.shift(hcl.Range{Filename: v.Field(0).String(), Start: pos(v.Field(1)), End: pos(v.Field(2))})
		fmt.Fprintf(&s.sb, "hcl.Range{%q,%d:%d:%d-%d:%d:%d}", rg.Filename, rg.Start.Line, rg.Start.Column, rg.Start.Byte, rg.End.Line, rg.End.Column, rg.End.Byte)
		return
	}
	switch v.Type() {
	case ctyValueType:
		if av, ok := access(v); ok {
			s.sb.WriteString(av.Interface().(cty.Value).GoString())
			return
		}
	case ctyTypeType:
		if av, ok := access(v); ok {
			s.sb.WriteString(av.Interface().(cty.Type).GoString())
			return
		}
	}
	switch v.Kind() {
	case reflect.Bool:
		fmt.Fprintf(&s.sb, "%t", v.Bool())
	case reflect.Int, reflect.Int8, reflect.Int16, reflect.Int32, reflect.Int64:
		fmt.Fprintf(&s.sb, "%d", v.Int())
	case reflect.Uint, reflect.Uint8, reflect.Uint16, reflect.Uint32, reflect.Uint64, reflect.Uintptr:
		fmt.Fprintf(&s.sb, "%d", v.Uint())
	case reflect.Float32, reflect.Float64:
		fmt.Fprintf(&s.sb, "%g", v.Float())
	case reflect.Complex64, reflect.Complex128:
		fmt.Fprintf(&s.sb, "%g", v.Complex())
	case reflect.String:
		fmt.Fprintf(&s.sb, "%q", v.String())
	case reflect.Func:
		if v.IsNil() {
			s.sb.WriteString("func(nil)")
		} else {
			s.sb.WriteString("func")
		}
	case reflect.Chan, reflect.UnsafePointer:
		s.sb.WriteString("<" + v.Kind().String() + ">")
	case reflect.Ptr:
		if v.IsNil() {
			s.sb.WriteString("nil")
			return
		}
		p := v.Pointer()
		if id, ok := s.ids[p]; ok {
			if s.withIDs {
				fmt.Fprintf(&s.sb, "&#%d", id)
			} else {
				fmt.Fprintf(&s.sb, "&<cycle>")
			}
			return
		}
		id := len(s.ids) + 1
		s.ids[p] = id
		if s.withIDs {
			fmt.Fprintf(&s.sb, "&%d:", id)
		} else {
			s.sb.WriteString("&")
		}
		s.walk(v.Elem(), depth+1)
		if !s.withIDs {
			delete(s.ids, p) // value mode: only guard against cycles
		}
	case reflect.Interface:
		if v.IsNil() {
			s.sb.WriteString("nil")
			return
		}
		e := v.Elem()
		s.sb.WriteString("(" + e.Type().String() + ")")
		s.walk(e, depth+1)
	case reflect.Struct:
		t := v.Type()
		s.sb.WriteString(t.String() + "{")
		for i := 0; i < v.NumField(); i++ {
			if i > 0 {
				s.sb.WriteString(",")
			}
			s.sb.WriteString(t.Field(i).Name + ":")
			if scratchField(t, t.Field(i).Name) {
				s.sb.WriteString("<scratch>")
				continue
			}
			s.walk(v.Field(i), depth+1)
		}
		s.sb.WriteString("}")
	case reflect.Array:
		s.sb.WriteString("[")
		for i := 0; i < v.Len(); i++ {
			if i > 0 {
				s.sb.WriteString(",")
			}
			s.walk(v.Index(i), depth+1)
		}
		s.sb.WriteString("]")
	case reflect.Slice:
		if v.IsNil() {
			if s.nilEqEmpty {
				if v.Type().Elem().Kind() == reflect.Uint8 {
					s.sb.WriteString("bytes(len=0,cap=0)\"\"")
				} else {
					s.sb.WriteString("[len=0:]")
				}
				return
			}
			s.sb.WriteString("nil[]")
			return
		}
		n := v.Len()
		full := v
		if s.withCap && v.Cap() > n {
			full = v.Slice3(0, v.Cap(), v.Cap())
		}
		if v.Type().Elem().Kind() == reflect.Uint8 {
			// byte slices: print compactly
			fmt.Fprintf(&s.sb, "bytes(len=%d,cap=%d)%q", n, full.Len(), bytesOf(full))
			return
		}
		fmt.Fprintf(&s.sb, "[len=%d", n)
		if s.withCap {
			fmt.Fprintf(&s.sb, ",cap=%d", v.Cap())
		}
		s.sb.WriteString(":")
		for i := 0; i < full.Len(); i++ {
			if i > 0 {
				s.sb.WriteString(",")
			}
			if i == n {
				s.sb.WriteString("|spare:")
			}
			s.walk(full.Index(i), depth+1)
		}
		s.sb.WriteString("]")
	case reflect.Map:
		if v.IsNil() {
			if s.nilEqEmpty {
				s.sb.WriteString("map{}")
				return
			}
			s.sb.WriteString("nil{}")
			return
		}
		type kv struct {
			k string
			v reflect.Value
		}
		var kvs []kv
		iter := v.MapRange()
		for iter.Next() {
			ks := &snap{ids: map[uintptr]int{}}
			ks.walk(iter.Key(), depth+1)
			kvs = append(kvs, kv{ks.sb.String(), iter.Value()})
		}
		sort.Slice(kvs, func(i, j int) bool { return kvs[i].k < kvs[j].k })
		s.sb.WriteString("map{")
		for i, e := range kvs {
			if i > 0 {
				s.sb.WriteString(",")
			}
			s.sb.WriteString(e.k + "=>")
			s.walk(e.v, depth+1)
		}
		s.sb.WriteString("}")
	default:
		s.sb.WriteString("<" + v.Kind().String() + ">")
	}
}

func bytesOf(v reflect.Value) []byte {
	out := make([]byte, v.Len())
	for i := range out {
		out[i] = byte(v.Index(i).Uint())
	}
	return out
}
