// Package world builds real hcl-lang objects (PathContext, PathReader, Decoder)
// from the serialisable models.
package world

import (
	"context"
	"fmt"
	"github.com/zclconf/go-cty/cty/function"
	"sort"

	"github.com/hashicorp/hcl-lang/decoder"
	"github.com/hashicorp/hcl-lang/lang"
	"github.com/hashicorp/hcl-lang/schema"
	"github.com/hashicorp/hcl-lang/validator"
	"github.com/hashicorp/hcl/v2"
	"github.com/hashicorp/hcl/v2/hclsyntax"
	hcljson "github.com/hashicorp/hcl/v2/json"
	"github.com/zclconf/go-cty/cty"

	"verif/harness/model"
)

// StockValidators is the full list of validators shipped by the library.
func StockValidators() []validator.Validator {
	return []validator.Validator{
		validator.BlockLabelsLength{},
		validator.DeprecatedAttribute{},
		validator.DeprecatedBlock{},
		validator.MaxBlocks{},
		validator.MinBlocks{},
		validator.MissingRequiredAttribute{},
		validator.UnexpectedAttribute{},
		validator.UnexpectedBlock{},
	}
}

type Reader struct {
	order []lang.Path
	ctxs  map[string]*decoder.PathContext
	fault map[string]bool
}

func (r *Reader) Paths(ctx context.Context) []lang.Path { return r.order }

func (r *Reader) PathContext(p lang.Path) (*decoder.PathContext, error) {
	if r.fault[p.Path] {
		return nil, fmt.Errorf("path %q cannot be read", p.Path)
	}
	c, ok := r.ctxs[p.Path]
	if !ok {
		return nil, fmt.Errorf("path %q not found", p.Path)
	}
	return c, nil
}

// Ctx gives direct access (for snapshots) regardless of fault state.
func (r *Reader) Ctx(path string) *decoder.PathContext { return r.ctxs[path] }

type World struct {
	M      model.WorldM
	Reader *Reader
	DCtx   decoder.DecoderContext
}

// ParseFile parses like a language server does: diagnostics are ignored, the
// (possibly partial) file is kept.
func ParseFile(f model.FileM) *hcl.File {
	if f.JSON {
		hf, _ := hcljson.Parse([]byte(f.Text), f.Name)
		return hf
	}
	hf, _ := hclsyntax.ParseConfig([]byte(f.Text), f.Name, hcl.InitialPos)
	return hf
}

func hookFunc(name string, h model.HookM) decoder.CompletionFunc {
	return func(ctx context.Context, value cty.Value) ([]decoder.Candidate, error) {
		if h.Err {
			return nil, fmt.Errorf("hook %s failed", name)
		}
		out := make([]decoder.Candidate, 0, h.N)
		for i := 0; i < h.N; i++ {
			out = append(out, decoder.ExpressionCompletionCandidate(decoder.ExpressionCandidate{
				Value:  cty.StringVal(fmt.Sprintf("%s-%03d", name, i)),
				Detail: "hook",
			}))
		}
		return out, nil
	}
}

// BuildPathContext builds the path context without collected references.
func BuildPathContext(p model.PathM) *decoder.PathContext {
	pc := &decoder.PathContext{
		Files: make(map[string]*hcl.File, len(p.Files)),
	}
	if p.Schema != nil {
		pc.Schema = p.Schema.Build()
	}
	for _, f := range p.Files {
		hf := ParseFile(f)
		if hf == nil {
			continue
		}
		pc.Files[f.Name] = hf
	}
	if p.Funcs != nil {
		pc.Functions = make(map[string]schema.FunctionSignature, len(p.Funcs))
		// All fixed parameters of a path live in one shared table and every signature is a
		// sub-slice of it (with the rest of the table as spare capacity), the way a schema
		// author slices prefixes of a common parameter list: appending to a signature's
		// Params would overwrite the next function's parameters.
		names := make([]string, 0, len(p.Funcs))
		for n := range p.Funcs {
			names = append(names, n)
		}
		sort.Strings(names)
		var table []function.Parameter
		offs := map[string][2]int{}
		for _, n := range names {
			fs := p.Funcs[n].Build()
			offs[n] = [2]int{len(table), len(table) + len(fs.Params)}
			table = append(table, fs.Params...)
		}
		for _, n := range names {
			fs := p.Funcs[n].Build()
			if o := offs[n]; o[1] > o[0] {
				fs.Params = table[o[0]:o[1]]
			}
			pc.Functions[n] = fs
		}
	}
	if p.Validators {
		pc.Validators = StockValidators()
	}
	return pc
}

// Build constructs the world and, like terraform-ls, collects reference
// targets and origins of every readable path and stores them in the path
// context before any query runs. Panics inside collection propagate to the
// caller (C01 treats them as violations of the collectors).
func Build(m model.WorldM) *World {
	r := &Reader{ctxs: map[string]*decoder.PathContext{}, fault: map[string]bool{}}
	for _, p := range m.Paths {
		lp := lang.Path{Path: p.Path, LanguageID: p.LanguageID}
		r.order = append(r.order, lp)
		r.ctxs[p.Path] = BuildPathContext(p)
		if p.Faulty {
			r.fault[p.Path] = true
		}
	}
	w := &World{M: m, Reader: r}
	w.DCtx = decoder.NewDecoderContext()
	w.DCtx.UtmSource = m.Ctx.UtmSource
	w.DCtx.UtmMedium = m.Ctx.UtmMedium
	w.DCtx.UseUtmContent = m.Ctx.UseUtmContent
	names := make([]string, 0, len(m.Ctx.Hooks))
	for n := range m.Ctx.Hooks {
		names = append(names, n)
	}
	sort.Strings(names)
	for _, n := range names {
		w.DCtx.CompletionHooks[n] = hookFunc(n, m.Ctx.Hooks[n])
	}
	return w
}

// Collect runs the collectors for every readable path and stores the results.
func (w *World) Collect() {
	d := w.Decoder()
	for _, p := range w.Reader.order {
		if w.Reader.fault[p.Path] {
			continue
		}
		pd, err := d.Path(p)
		if err != nil {
			continue
		}
		pc := w.Reader.ctxs[p.Path]
		if ts, err := pd.CollectReferenceTargets(); err == nil {
			pc.ReferenceTargets = ts
		}
		if os, err := pd.CollectReferenceOrigins(); err == nil {
			pc.ReferenceOrigins = os
		}
	}
}

func (w *World) Decoder() *decoder.Decoder {
	d := decoder.NewDecoder(w.Reader)
	d.SetContext(w.DCtx)
	return d
}

func (w *World) LangPath(i int) lang.Path { return w.Reader.order[i] }
