// Package gen contains the rapid generators for schema models, configuration
// text, edits and worlds. Every random choice goes through *rapid.T so that
// shrinking and replay work.
package gen

import (
	"sort"

	"pgregory.net/rapid"
)

// G is a thin convenience wrapper around *rapid.T.
type G struct {
	T *rapid.T
	// inBlockBody is a generation-time flag (not a random choice): set while the
	// text of a resource-like body is being written.
	inBlockBody bool
}

func (g G) Int(lo, hi int) int {
	if hi <= lo {
		return lo
	}
	return rapid.IntRange(lo, hi).Draw(g.T, "n")
}

func (g G) Bool() bool { return rapid.Bool().Draw(g.T, "b") }

// Chance is true with roughly pct percent probability.
func (g G) Chance(pct int) bool {
	if pct <= 0 {
		return false
	}
	if pct >= 100 {
		return true
	}
	// the minimal draw (what shrinking moves towards) means "no"
	return rapid.IntRange(0, 99).Draw(g.T, "pct") >= 100-pct
}

func Pick[E any](g G, s []E) E {
	return rapid.SampledFrom(s).Draw(g.T, "pick")
}

// Subset returns a random subset preserving order; every element is kept with
// probability pct.
func Subset[E any](g G, s []E, pct int) []E {
	out := make([]E, 0, len(s))
	for _, e := range s {
		if g.Chance(pct) {
			out = append(out, e)
		}
	}
	return out
}

func Perm[E any](g G, s []E) []E {
	if len(s) < 2 {
		return append([]E(nil), s...)
	}
	return rapid.Permutation(s).Draw(g.T, "perm")
}

// Weighted picks an index according to integer weights.
func (g G) Weighted(weights ...int) int {
	total := 0
	for _, w := range weights {
		total += w
	}
	n := g.Int(0, total-1)
	for i, w := range weights {
		if n < w {
			return i
		}
		n -= w
	}
	return len(weights) - 1
}

func sortStrings(s []string) { sort.Strings(s) }
