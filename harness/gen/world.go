package gen

import (
	"strings"

	"github.com/zclconf/go-cty/cty"

	"github.com/hashicorp/hcl/v2"
	"github.com/hashicorp/hcl/v2/hclsyntax"

	m "verif/harness/model"
)

type WorldOpts struct {
	Schema     SchemaOpts
	Cfg        CfgOpts
	MaxPaths   int
	MaxFiles   int
	Faults     bool // allow faulty (unreadable) paths
	JSONFiles  bool // allow JSON files next to native ones
	Edits      int  // max number of edits applied to each file (0 = pristine)
	NoSchema   int  // percent chance that a path has no schema
	Validators int  // percent chance validators are enabled (default 70)
}

// World generates a world model: 1..MaxPaths paths with schema, functions and files.
func (g G) World(o WorldOpts) m.WorldM {
	if o.MaxPaths < 1 {
		o.MaxPaths = 1
	}
	if o.MaxFiles < 1 {
		o.MaxFiles = 1
	}
	np := 1
	if o.MaxPaths > 1 && g.Chance(50) {
		np = g.Int(2, o.MaxPaths)
	}
	w := m.WorldM{Ctx: g.Ctx()}
	so := o.Schema
	so.Paths = PathNames[:np]
	for i := 0; i < np; i++ {
		p := m.PathM{Path: PathNames[i], LanguageID: Pick(g, []string{"", "terraform"})}
		if !g.Chance(o.NoSchema) {
			b := g.Body(0, so, false)
			p.Schema = &b
		}
		p.Funcs = g.Funcs(so.Wide, so.Huge)
		vp := o.Validators
		if vp == 0 {
			vp = 70
		}
		p.Validators = g.Chance(vp)
		co := o.Cfg
		co.Funcs = p.Funcs
		nf := 1
		if o.MaxFiles > 1 && g.Chance(40) {
			nf = g.Int(2, o.MaxFiles)
		}
		for j := 0; j < nf; j++ {
			name := []string{"main.tf", "b.tf", "c.tf"}[j]
			var text string
			if p.Schema != nil {
				text = g.Config(*p.Schema, co)
			} else {
				text = g.Config(g.Body(0, SchemaOpts{MaxDepth: 1, NoHooks: true}, false), co)
			}
			for k := 0; k < o.Edits; k++ {
				if g.Chance(60) {
					text = g.Edit(text)
				}
			}
			p.Files = append(p.Files, m.FileM{Name: name, Text: text})
		}
		if o.Faults && np > 1 && g.Chance(25) {
			p.Faulty = true
		}
		w.Paths = append(w.Paths, p)
	}
	return w
}

var hostile = []string{".", "[", "(", ",", "=", "\"", "${", "::", " ", "\r", "{", "}", "]", ")", "\n", " ", "%{", "<<EOT\n", "*", "?", ":", "é", "\t", "/*", "#", "0", "a", "self.", "var.", "count.", "provider::", " :: ", "null", "\u00a0", "\\n", "[]", "()", "{}", ".0", "[*]", "f(", "fn(", ", ", "provider::aws::fo", "ns::"}

// Edit applies one random edit to text: prefix truncation, or deletion /
// duplication / replacement of a lexer token, or insertion of a hostile fragment.
func (g G) Edit(text string) string {
	if len(text) == 0 {
		return Pick(g, hostile)
	}
	switch g.Weighted(25, 20, 10, 15, 30) {
	case 0: // prefix
		return text[:g.Int(0, len(text))]
	case 1, 2, 3:
		toks, _ := hclsyntax.LexConfig([]byte(text), "x", hcl.InitialPos)
		if len(toks) < 2 {
			return text[:g.Int(0, len(text))]
		}
		tk := toks[g.Int(0, len(toks)-2)]
		s, e := tk.Range.Start.Byte, tk.Range.End.Byte
		if s > len(text) || e > len(text) || s > e {
			return text
		}
		switch g.Weighted(40, 25, 35) {
		case 0: // delete
			return text[:s] + text[e:]
		case 1: // duplicate
			return text[:e] + text[s:e] + text[e:]
		default: // replace
			return text[:s] + Pick(g, hostile) + text[e:]
		}
	default: // insertion of a hostile fragment, biased to token boundaries
		pos := g.Int(0, len(text))
		if g.Chance(70) {
			toks, _ := hclsyntax.LexConfig([]byte(text), "x", hcl.InitialPos)
			if len(toks) > 0 {
				tk := toks[g.Int(0, len(toks)-1)]
				if g.Bool() {
					pos = tk.Range.Start.Byte
				} else {
					pos = tk.Range.End.Byte
				}
				if pos > len(text) {
					pos = len(text)
				}
			}
		}
		// do not split a multi-byte character: move to a rune boundary
		for pos > 0 && pos < len(text) && !isRuneStart(text[pos]) {
			pos--
		}
		return text[:pos] + Pick(g, hostile) + text[pos:]
	}
}

func isRuneStart(b byte) bool { return b&0xC0 != 0x80 }

// TrimToRune makes sure a byte prefix does not end inside a multi-byte rune.
func TrimToRune(s string) string {
	return strings.ToValidUTF8(s, "")
}

// ValueWorld generates a world that is all about values: one path whose schema is a flat
// set of any-expression attributes of rich types (objects, maps / lists / sets of objects,
// tuples, primitives, dynamic), addressable `variable` blocks the references in the values
// resolve to, and functions with fixed and variadic parameters. Values are nested up to
// depth 3 (operators, conditionals, calls, index / for expressions, templates, constructors
// with literal and non-literal keys).
func (g G) ValueWorld(co CfgOpts) m.WorldM {
	anyOfT := func(t cty.Type) m.AttrM {
		return m.AttrM{Flag: "optional", Cons: m.ConsM{K: "any", Ty: m.TyOf(t)}}
	}
	small := cty.Object(map[string]cty.Type{"a": cty.String, "n": cty.Number})
	obj := cty.Object(map[string]cty.Type{"a": cty.String, "n": cty.Number, "b": cty.Bool, "l": cty.List(cty.Number), "o": small})
	root := m.BodyM{Attrs: map[string]m.AttrM{
		"o1": anyOfT(obj), "o2": anyOfT(small), "m1": anyOfT(cty.Map(small)), "l1": anyOfT(cty.List(small)), "sb": anyOfT(cty.Set(cty.Bool)),
		"t1": anyOfT(cty.Tuple([]cty.Type{cty.String, cty.Number, cty.Bool})), "ms": anyOfT(cty.Map(cty.String)), "ls": anyOfT(cty.List(cty.String)),
		"s": anyOfT(cty.String), "n": anyOfT(cty.Number), "b": anyOfT(cty.Bool), "d": anyOfT(cty.DynamicPseudoType), "ml": anyOfT(cty.Map(cty.List(cty.String))),
	}, Blocks: map[string]m.BlockM{
		"variable": {
			Labels: []m.LabelM{{Name: "name"}},
			Body: &m.BodyM{Attrs: map[string]m.AttrM{
				"type":    {Flag: "optional", Cons: m.ConsM{K: "typedecl"}},
				"default": anyOfT(cty.DynamicPseudoType),
			}},
			Addr: &m.BlockAddrM{Steps: []m.StepM{{K: "static", Name: "var"}, {K: "label", Index: 0}}, Scope: "variable",
				HasAsTypeOf: true, AsTypeOf: "type", AsReference: g.Chance(40)},
		},
	}}
	funcs := map[string]m.FuncM{
		"f":     {Ret: m.TyOf(cty.String), Params: []m.ParamM{{Name: "p0", Ty: m.TyOf(cty.String)}}},
		"fn":    {Ret: m.TyOf(cty.Number), Params: []m.ParamM{{Name: "p0", Ty: m.TyOf(cty.Number)}}, VarParam: &m.ParamM{Name: "rest", Ty: m.TyOf(cty.Number)}},
		"join":  {Ret: m.TyOf(cty.String), Params: []m.ParamM{{Name: "sep", Ty: m.TyOf(cty.String)}}, VarParam: &m.ParamM{Name: "lists", Ty: m.TyOf(cty.List(cty.String))}},
		"g":     {Ret: m.TyOf(cty.DynamicPseudoType), Params: []m.ParamM{{Name: "p0", Ty: m.TyOf(cty.DynamicPseudoType)}, {Name: "p1", Ty: m.TyOf(cty.Bool)}}},
		"lower": {Ret: m.TyOf(cty.String), Params: []m.ParamM{{Name: "str", Ty: m.TyOf(cty.String)}}},
		"ns::f": {Ret: m.TyOf(cty.Bool)},
		"keys":  {Ret: m.TyOf(cty.List(cty.String)), Params: []m.ParamM{{Name: "m", Ty: m.TyOf(cty.Map(cty.DynamicPseudoType))}}},
	}
	co.Funcs = funcs
	if co.Depth == 0 {
		co.Depth = 3
	}
	co.NoDynamic = true
	co.KeyHeavy = g.Chance(50)
	p := m.PathM{Path: PathNames[0], Schema: &root, Funcs: funcs, Validators: g.Chance(50)}
	decl := "variable \"a\" {\n  default = \"x\"\n}\nvariable \"ab\" {\n  type = bool\n}\nvariable \"aws\" {\n  type = map(string)\n}\n"
	nf := g.Int(1, 2)
	for j := 0; j < nf; j++ {
		text := g.Config(m.BodyM{Attrs: root.Attrs}, co)
		if j == 0 {
			if g.Bool() {
				text = decl + text
			} else {
				text += decl
			}
		}
		p.Files = append(p.Files, m.FileM{Name: []string{"main.tf", "b.tf"}[j], Text: text})
	}
	return m.WorldM{Ctx: g.Ctx(), Paths: []m.PathM{p}}
}
