package gen

import (
	"fmt"
	"sort"
	"strconv"
	"strings"

	"github.com/zclconf/go-cty/cty"

	m "verif/harness/model"
	"verif/harness/refmodel"
)

// CfgOpts tunes configuration generation.
type CfgOpts struct {
	Funcs      map[string]m.FuncM
	Violations int  // percent chance (per opportunity) of writing something non-conforming
	Layout     bool // random comments / blank lines / multi-byte text
	Depth      int  // nesting depth of attribute values (0: the default of 2)
	Simple     bool // only literals and plain references (C19, JSON-expressible)
	NoDynamic  bool
	HalfTyped  int  // percent chance that an attribute value is a half-typed fragment
	Typed      bool // only type-correct expressions (no deliberate mismatches, for-expressions only under iterable types)
	RefHeavy   bool // prefer references and nested expression forms over literals
	CallHeavy  bool // a quarter of the nested expressions are calls of known functions
	KeyHeavy   bool // many object constructors carry an item whose key is no literal name
}

type cfgWriter struct {
	g  G
	o  CfgOpts
	sb strings.Builder
	nl string
}

// Config renders a configuration for the given root body schema.
func (g G) Config(root m.BodyM, o CfgOpts) string {
	w := &cfgWriter{g: g, o: o, nl: "\n"}
	if o.Layout && g.Chance(6) {
		w.nl = "\r\n"
	}
	w.body(root, 0, false)
	s := w.sb.String()
	if o.Layout && g.Chance(10) {
		s = strings.TrimRight(s, "\r\n") // no trailing newline
	}
	return s
}

func (w *cfgWriter) ind(level int) string { return strings.Repeat("  ", level) }

func (w *cfgWriter) filler(level int) {
	if !w.o.Layout {
		return
	}
	g := w.g
	switch g.Weighted(70, 8, 6, 6, 5, 5) {
	case 1:
		w.sb.WriteString(w.nl)
	case 2:
		w.sb.WriteString(w.ind(level) + "# comment" + w.nl)
	case 3:
		w.sb.WriteString(w.ind(level) + "// čomment é 日本" + w.nl)
	case 4:
		w.sb.WriteString(w.ind(level) + "/* block" + w.nl + " é */" + w.nl)
	case 5:
		w.sb.WriteString(w.ind(level) + "/* inline */ ")
	}
}

func sortedKeys[V any](mp map[string]V) []string {
	out := make([]string, 0, len(mp))
	for k := range mp {
		out = append(out, k)
	}
	sort.Strings(out)
	return out
}

func (w *cfgWriter) viol() bool { return w.g.Chance(w.o.Violations) }

func (w *cfgWriter) body(b m.BodyM, level int, selfOK bool) {
	g := w.g
	env := exprEnv{funcs: w.o.Funcs, self: b.Ext != nil && b.Ext.SelfRefs || selfOK, simple: w.o.Simple, typed: w.o.Typed, refHeavy: w.o.RefHeavy, callHeavy: w.o.CallHeavy, keyHeavy: w.o.KeyHeavy}
	type item struct {
		kind string
		name string
	}
	var items []item
	if b.Ext != nil {
		if b.Ext.Count && g.Chance(35) {
			items = append(items, item{"count", "count"})
		}
		if b.Ext.ForEach && g.Chance(30) {
			items = append(items, item{"for_each", "for_each"})
		}
	}
	for _, n := range sortedKeys(b.Attrs) {
		a := b.Attrs[n]
		p := 50
		switch {
		case a.Required():
			p = 92
		case a.Flag == "computed":
			p = 12
		}
		if g.Chance(p) {
			items = append(items, item{"attr", n})
		}
	}
	if b.AnyAttr != nil {
		n := g.Int(0, 3)
		names := Perm(g, []string{"any1", "a", "é1", "x-y", "name"})
		for i := 0; i < n; i++ {
			items = append(items, item{"any", names[i]})
		}
	}
	if w.viol() {
		items = append(items, item{"unknownattr", Pick(g, []string{"zz_unknown", "count", "self"})})
	}
	for _, n := range sortedKeys(b.Blocks) {
		bl := b.Blocks[n]
		lo, hi := int(bl.Min), int(bl.Max)
		if hi == 0 || hi < lo {
			hi = lo + 2
		}
		cnt := g.Int(lo, hi)
		if g.Chance(30) {
			cnt = g.Int(0, 2)
		}
		if w.viol() {
			cnt = g.Int(0, hi+1)
		}
		for i := 0; i < cnt; i++ {
			items = append(items, item{"block", n})
		}
		if !w.o.NoDynamic && b.Ext != nil && b.Ext.Dynamic && g.Chance(25) {
			items = append(items, item{"dynamic", n})
		}
	}
	if w.viol() {
		items = append(items, item{"unknownblock", Pick(g, []string{"zz_unknownblk", "dynamic", "content"})})
	}
	if g.Chance(30) {
		items = Perm(g, items)
	}
	for _, it := range items {
		w.filler(level)
		switch it.kind {
		case "count":
			w.attrLine(level, "count", g.exprFor(m.ConsM{K: "any", Ty: m.TyOf(cty.Number)}, env, 2))
		case "for_each":
			w.attrLine(level, "for_each", g.exprFor(m.ConsM{K: "any", Ty: m.TyOf(cty.Map(cty.DynamicPseudoType))}, env, 2))
		case "attr":
			if w.o.HalfTyped > 0 && len(b.Attrs[it.name].Hooks) > 0 && g.Chance(30) {
				// hook-driven completion works on the raw text left and right of the cursor:
				// unterminated strings with multi-byte text on both sides
				w.attrLineRaw(level, it.name, Pick(g, []string{`"ab é x`, `"é`, `"pre é ü`, `"x é" é`, `"${var.a} é`}))
				continue
			}
			if names := objectAttrNames(b.Attrs[it.name].Cons); w.o.HalfTyped > 0 && len(names) > 0 && g.Chance(20) {
				// object completion works on the raw text around the cursor: a partially typed
				// attribute name, with a comment / other items / multi-byte text to its right
				n := Pick(g, names)
				k := n[:TrimLen(n, g.Int(1, len(n)))]
				w.attrLineRaw(level, it.name, Pick(g, []string{
					"{\n" + w.ind(level+1) + k + " # c\n" + w.ind(level) + "}",
					"{\n" + w.ind(level+1) + k + " // é x\n" + w.ind(level) + "}",
					"{ " + k + " /* c */ }",
					"{\n" + w.ind(level+1) + k + "\n" + w.ind(level) + "}",
					"{ " + k + " é = 1 }",
				}))
				continue
			}
			vd := 2
			if w.o.Depth > 0 {
				vd = w.o.Depth
			}
			w.attrLine(level, it.name, g.exprFor(b.Attrs[it.name].Cons, env, vd))
		case "any":
			w.attrLine(level, it.name, g.exprFor(b.AnyAttr.Cons, env, 2))
		case "unknownattr":
			w.attrLine(level, it.name, g.exprFor(m.ConsM{K: "any", Ty: m.TyOf(cty.DynamicPseudoType)}, env, 1))
		case "block":
			w.block(it.name, b.Blocks[it.name], level, env.self)
		case "dynamic":
			w.sb.WriteString(fmt.Sprintf("%sdynamic %q {%s", w.ind(level), it.name, w.nl))
			w.attrLine(level+1, "for_each", g.exprFor(m.ConsM{K: "any", Ty: m.TyOf(cty.List(cty.DynamicPseudoType))}, env, 1))
			w.sb.WriteString(fmt.Sprintf("%scontent {%s", w.ind(level+1), w.nl))
			if bl := b.Blocks[it.name]; bl.Body != nil {
				w.body(*bl.Body, level+2, env.self)
			}
			w.sb.WriteString(fmt.Sprintf("%s}%s%s}%s", w.ind(level+1), w.nl, w.ind(level), w.nl))
		case "unknownblock":
			w.sb.WriteString(fmt.Sprintf("%s%s %q {%s%s  zz = 1%s%s}%s", w.ind(level), it.name, "lbl", w.nl, w.ind(level), w.nl, w.ind(level), w.nl))
		}
	}
}

var halfTyped = []string{"", "", "", "provider::aws::f", "provider::aws::", "ns::", "ns::fé", "ns::f", "var.", "var.a.", "f(", "fn(var.a, ", "[", "[var.a, ", "{", "{ a = ", "{ a = 1, ",
	"\"${", "\"${var.", "\"abc", "true ? ", "true ? 1 : ", "1 + ", "!", "[for ", "[for x in ", "[for x in var.a : ", "var.a[", "var.a[\"", "self.", "count.", "each.", "<<EOT\n  x\n",
	"lis", "t", "f", "nu", "obj", "list(", "object({", "(", "-",
	// a partially typed object attribute name followed by a comment on the same line
	"{\n    a # c\n  }", "{\n    ab // é x\n  }", "{ a /* c */ }", "{\n    k # é\n    a = 1\n  }", "{\n    n- # c\n  }"}

// objectAttrNames lists the attribute names of an object-shaped constraint.
func objectAttrNames(c m.ConsM) []string {
	var out []string
	switch c.K {
	case "object":
		out = sortedKeys(c.Attrs)
	case "any", "littype":
		if t := c.Ty.Cty(); t.IsObjectType() {
			for n := range t.AttributeTypes() {
				out = append(out, n)
			}
			sort.Strings(out)
		}
	}
	return out
}

// TrimLen returns the largest length <= n at which s can be cut on a character boundary.
func TrimLen(s string, n int) int {
	for n > 0 && n < len(s) && s[n]&0xC0 == 0x80 {
		n--
	}
	return n
}

func (w *cfgWriter) attrLineRaw(level int, name, expr string) {
	w.sb.WriteString(w.ind(level) + name + " = " + expr + w.nl)
}

func (w *cfgWriter) attrLine(level int, name, expr string) {
	if w.o.HalfTyped > 0 && w.g.Chance(w.o.HalfTyped) {
		expr = Pick(w.g, halfTyped)
	}
	eq := " = "
	if w.o.Layout {
		eq = Pick(w.g, []string{" = ", " = ", "=", "   = ", " =  "})
	}
	w.sb.WriteString(w.ind(level) + name + eq + expr + w.nl)
}

func (w *cfgWriter) block(name string, bl m.BlockM, level int, selfOK bool) {
	g := w.g
	// choose the dependent body
	sel := -1
	if len(bl.Deps) > 0 && g.Chance(80) {
		sel = g.Int(0, len(bl.Deps)-1)
	}
	labels := make([]string, len(bl.Labels))
	for i := range labels {
		// (mostly plain names; some need escaping when quoted)
		labels[i] = Pick(g, append([]string{"foo", "foo", "foo", "q\"q", "a b", "c:\\x"}, LabelVals...))
	}
	var keyAttrs []m.AttrKeyM
	var dep *m.BodyM
	if sel >= 0 {
		d := bl.Deps[sel]
		for _, lk := range d.Labels {
			if lk.Index < len(labels) {
				labels[lk.Index] = lk.Value
			}
		}
		keyAttrs = d.Attrs
		dep = &d.Body
	}
	if w.o.Typed {
		// label violations would change which dependent body is in force, making
		// the values written for the intended body ill-typed
	} else if w.viol() && len(labels) > 0 {
		labels = labels[:len(labels)-1]
	} else if w.viol() {
		labels = append(labels, "surplus")
	}
	w.sb.WriteString(w.ind(level) + name)
	for _, l := range labels {
		if w.o.Layout && g.Chance(5) && isIdent(l) {
			w.sb.WriteString(" " + l) // naked identifier label
		} else {
			w.sb.WriteString(" " + strconv.Quote(l))
		}
	}
	if w.o.Layout && g.Chance(4) {
		w.sb.WriteString(" {}" + w.nl) // single-line empty block
		return
	}
	w.sb.WriteString(" {" + w.nl)
	eff := refmodel.Overlay(bl.Body, dep)
	// key attributes are written explicitly, the rest of the body must not repeat them
	written := map[string]bool{}
	for _, ka := range keyAttrs {
		if written[ka.Name] {
			continue
		}
		written[ka.Name] = true
		if g.Chance(10) {
			// a key written as an expression that has no static value: the dependent body cannot be resolved
			lit := `"x"`
			if ka.Static != nil {
				lit = literalText(g, ka.Static.Cty(), false)
			}
			w.attrLine(level+1, ka.Name, Pick(g, []string{`"${var.a}"`, `lower(` + lit + `)`, `var.ab ? ` + lit + ` : ` + lit, `"pre-${var.a}"`, `f(var.a)`}))
		} else if ka.Static != nil {
			w.attrLine(level+1, ka.Name, literalText(g, ka.Static.Cty(), false))
		} else {
			w.attrLine(level+1, ka.Name, ka.Addr)
		}
		if eff.Attrs != nil {
			delete(eff.Attrs, ka.Name)
		}
	}
	if bl.Body != nil || dep != nil {
		w.body(eff, level+1, selfOK)
	}
	w.sb.WriteString(w.ind(level) + "}" + w.nl)
}

func isIdent(s string) bool {
	if s == "" {
		return false
	}
	for i, r := range s {
		if !(r == '_' || (r >= 'a' && r <= 'z') || (r >= 'A' && r <= 'Z') || (i > 0 && (r == '-' || (r >= '0' && r <= '9')))) {
			return false
		}
	}
	return true
}

// ---------------------------------------------------------------------------
// expressions

type exprEnv struct {
	funcs     map[string]m.FuncM
	self      bool
	simple    bool
	typed     bool
	refHeavy  bool
	callHeavy bool
	keyHeavy  bool
}

func quoteHCL(s string) string {
	var sb strings.Builder
	sb.WriteByte('"')
	for _, r := range s {
		switch r {
		case '"':
			sb.WriteString(`\"`)
		case '\\':
			sb.WriteString(`\\`)
		case '\n':
			sb.WriteString(`\n`)
		case '\t':
			sb.WriteString(`\t`)
		case '\r':
			sb.WriteString(`\r`)
		default:
			sb.WriteRune(r)
		}
	}
	sb.WriteByte('"')
	return sb.String()
}

// literalText renders a cty value as HCL literal text. When `vary` is set the
// layout is randomised (quoted keys, trailing commas, multi-line).
func literalText(g G, v cty.Value, vary bool) string {
	t := v.Type()
	switch {
	case v.IsNull():
		return "null"
	case t == cty.String:
		return quoteHCL(v.AsString())
	case t == cty.Number:
		bf := v.AsBigFloat()
		if bf.IsInt() {
			i, _ := bf.Int64()
			return strconv.FormatInt(i, 10)
		}
		f, _ := bf.Float64()
		return strconv.FormatFloat(f, 'f', -1, 64)
	case t == cty.Bool:
		if v.True() {
			return "true"
		}
		return "false"
	case t.IsListType() || t.IsSetType() || t.IsTupleType():
		var parts []string
		for it := v.ElementIterator(); it.Next(); {
			_, ev := it.Element()
			parts = append(parts, literalText(g, ev, vary))
		}
		s := "[" + strings.Join(parts, ", ")
		if vary && len(parts) > 0 && g.Chance(20) {
			s += ","
		}
		return s + "]"
	case t.IsMapType() || t.IsObjectType():
		var parts []string
		mv := v.AsValueMap()
		for _, k := range sortedKeys(mv) {
			key := k
			if !isIdent(k) || (vary && g.Chance(30)) {
				key = quoteHCL(k)
			}
			eq := " = "
			if vary && g.Chance(15) {
				eq = ": "
			}
			parts = append(parts, key+eq+literalText(g, mv[k], vary))
		}
		if vary && len(parts) > 0 && g.Chance(40) {
			return "{\n    " + strings.Join(parts, "\n    ") + "\n  }"
		}
		return "{" + strings.Join(parts, ", ") + "}"
	}
	return "null"
}

var refPool = []string{
	"var.aws", "var.az", "var.a", "var.ab", "res.aws", "res.aws.az", "res.t1", "res.aws.foo", "local.a", "local.name",
	"data.aws.t1", "var.aws.a", "res.aws.az.ab", "var.tgt", "res.tgt.n1", "var.a.k", "local.é1",
	"foo.bar", "var.missing", "unknown",
}

var localRefPool = []string{"count.index", "each.key", "each.value", "self", "self.a", "self.ab", "self.blk", "self.name"}

// refText generates a traversal, sometimes with index / splat steps.
func (g G) refText(env exprEnv) string {
	var base string
	if g.Chance(22) {
		base = Pick(g, localRefPool)
	} else {
		base = Pick(g, refPool)
	}
	if env.simple {
		return base
	}
	switch g.Weighted(70, 6, 6, 5, 5, 4, 4, 2, 2, 2) {
	case 7: // two full splats with a dynamic index key after / between them
		base += "[*].a[*].b[var.a]"
	case 8:
		base += "[*].a[local.a][*].b"
	case 9:
		base += "[*].a[*].b[true ? var.ab : 0].c"
	case 1:
		base += "[0]"
	case 2:
		base += `["k1"]`
	case 3:
		base += ".0"
	case 4:
		base += "[*].a"
	case 5:
		base += "[var.a]"
	case 6:
		base += ".*.ab"
	}
	return base
}

func (g G) exprOfType(t cty.Type, env exprEnv, depth int) string {
	if depth <= 0 || env.simple {
		if env.simple && g.Chance(25) {
			return g.refText(env)
		}
		return literalText(g, g.Val(concretise(t)), true)
	}
	if env.callHeavy && len(env.funcs) > 0 && g.Chance(25) {
		return g.callText(env, depth-1)
	}
	// for expressions (also with the grouping ellipsis) where a collection is expected
	if (t.IsListType() || t.IsSetType() || t.IsMapType()) && g.Chance(10) {
		src := g.exprOfType(cty.List(cty.String), env, depth-1)
		if t.IsMapType() {
			return "{for k, v in " + src + " : k => " + Pick(g, []string{"v", "var.a", "upper(v)"}) + Pick(g, []string{"", "...", "..."}) + Pick(g, []string{"", " if v != \"\"", " if v > 10", " if !false"}) + "}"
		}
		return "[for v in " + src + " : " + Pick(g, []string{"v", "var.a", "v.ab", `"${v}-x"`}) + Pick(g, []string{"", " if var.ab", " if true", " if v != 3 && var.ab"}) + "]"
	}
	// collection / object constructors with nested (typed) expressions
	if (t.IsListType() || t.IsSetType() || t.IsTupleType() || t.IsMapType() || t.IsObjectType()) && g.Chance(45) {
		switch {
		case t.IsListType() || t.IsSetType():
			n := g.Int(0, 3)
			parts := make([]string, n)
			for i := range parts {
				parts[i] = g.exprOfType(t.ElementType(), env, depth-1)
			}
			return "[" + strings.Join(parts, ", ") + "]"
		case t.IsTupleType():
			var parts []string
			for _, et := range t.TupleElementTypes() {
				parts = append(parts, g.exprOfType(et, env, depth-1))
			}
			return "[" + strings.Join(parts, ", ") + "]"
		case t.IsMapType():
			n := g.Int(0, 3)
			var parts []string
			for i := 0; i < n; i++ {
				parts = append(parts, Pick(g, []string{"k1", `"k2"`, "k3", "k1", `"k2"`, "k3", "(var.a)", "( var.ab )", `"${var.ab}"`})+" = "+g.exprOfType(t.ElementType(), env, depth-1))
			}
			return "{ " + strings.Join(parts, ", ") + " }"
		default:
			var parts []string
			ats := t.AttributeTypes()
			for _, n := range sortedKeys(ats) {
				k := n
				if !isIdent(n) {
					k = quoteHCL(n)
				}
				parts = append(parts, k+" = "+g.exprOfType(ats[n], env, depth-1))
			}
			if g.Chance(15) || env.keyHeavy && g.Chance(35) {
				// an item whose key is no literal name, anywhere among the known ones
				k := Pick(g, []string{"(var.a)", "( var.ab )", `"${var.ab}"`, `("zz")`})
				i := g.Int(0, len(parts))
				parts = append(parts[:i], append([]string{k + " = " + Pick(g, []string{`"b"`, "1", "var.a"})}, parts[i:]...)...)
			}
			return "{ " + strings.Join(parts, ", ") + " }"
		}
	}
	ws := []int{34, 20, 8, 8, 6, 5, 5, 4, 4, 3, 3, 2, 2}
	if env.refHeavy {
		ws = []int{8, 26, 12, 10, 8, 7, 6, 5, 6, 5, 4, 1, 2}
	}
	if env.typed {
		ws[11] = 0 // no half-typed fragments / null
		if !(t.IsListType() || t.IsSetType() || t.IsTupleType() || t.IsMapType() || t.IsObjectType() || t == cty.DynamicPseudoType) {
			ws[8] = 0 // for expressions only where an iterable result is expected
		}
	}
	switch g.Weighted(ws...) {
	case 11:
		if g.Chance(40) {
			return Pick(g, []string{"provider::aws::f", "provider::aws::", "ns::", "ns::f", "provider::aws::fo"}) // half-typed namespaced function
		}
		return "null"
	case 12:
		return g.exprOfType(cty.Bool, env, depth-1) + " ? null : " + g.exprOfType(t, env, depth-1)
	case 0:
		return literalText(g, g.Val(concretise(t)), true)
	case 1:
		return g.refText(env)
	case 2:
		return g.callText(env, depth-1)
	case 3: // template
		if t == cty.String || t == cty.DynamicPseudoType {
			switch g.Weighted(50, 20, 15, 15, 8, 6) {
			case 4: // indented heredoc whose lines begin with an interpolation / a directive
				return "<<-EOT\n    ${" + g.refText(env) + "} tail\n      é ${" + g.refText(env) + "}\n    EOT"
			case 5:
				return "<<-EOT\n    %{if " + g.exprOfType(cty.Bool, env, depth-1) + "}\n    yes\n    %{endif}\n    EOT"
			case 0:
				return `"pre-${` + g.exprOfType(cty.String, env, depth-1) + `}-é"`
			case 1:
				return `"${` + g.refText(env) + `}"`
			case 2:
				return `"%{if ` + g.exprOfType(cty.Bool, env, depth-1) + `}yes%{else}${` + g.refText(env) + `}%{endif}"`
			default:
				return "<<EOT\nline ${" + g.refText(env) + "}\n  é\nEOT"
			}
		}
		return g.refText(env)
	case 4: // conditional
		return par(g.exprOfType(cty.Bool, env, depth-1)) + " ? " + par(g.exprOfType(t, env, depth-1)) + " : " + par(g.exprOfType(t, env, depth-1))
	case 5: // binary operator
		switch {
		case t == cty.Number || t == cty.DynamicPseudoType:
			return par(g.exprOfType(cty.Number, env, depth-1)) + Pick(g, []string{" + ", " - ", " * ", " / ", " % "}) + par(g.exprOfType(cty.Number, env, depth-1))
		case t == cty.Bool:
			if g.Bool() {
				return par(g.exprOfType(cty.Number, env, depth-1)) + Pick(g, []string{" < ", " >= ", " == ", " != "}) + par(g.exprOfType(cty.Number, env, depth-1))
			}
			return par(g.exprOfType(cty.Bool, env, depth-1)) + Pick(g, []string{" && ", " || "}) + par(g.exprOfType(cty.Bool, env, depth-1))
		}
		return g.refText(env)
	case 6: // unary
		if t == cty.Bool {
			return "!" + par(g.exprOfType(cty.Bool, env, depth-1))
		}
		if t == cty.Number {
			return "-" + par(g.exprOfType(cty.Number, env, depth-1))
		}
		return g.refText(env)
	case 7: // parentheses, sometimes with blanks or a line break inside
		pad := Pick(g, []string{"", "", "", " ", "  ", "\n    "})
		return "(" + pad + g.exprOfType(t, env, depth-1) + Pick(g, []string{"", "", " ", pad}) + ")"
	case 8: // for expression
		src := g.exprOfType(cty.List(cty.String), env, depth-1)
		switch {
		case t.IsMapType() || t.IsObjectType():
			return "{for k, v in " + src + " : k => " + Pick(g, []string{"v", "var.a", "upper(v)"}) + Pick(g, []string{"", "", "..."}) + Pick(g, []string{"", " if v != \"\"", " if v > 10", " if !false"}) + "}"
		default:
			return "[for v in " + src + " : " + Pick(g, []string{"v", "var.a", "v.ab", `"${v}-x"`}) + Pick(g, []string{"", " if var.ab", " if true", " if v != 3 && var.ab"}) + "]"
		}
	case 9: // index
		return par(g.exprOfType(cty.List(t), env, depth-1)) + "[" + Pick(g, []string{"0", "var.a", "count.index", `"k"`, "count.index + 1", "var.a % 2", "var.ab ? 0 : 1", "(1 + 1)"}) + "]"
	default: // relative traversal after call
		return g.callText(env, depth-1) + Pick(g, []string{".a", "[0]", ".a.b"})
	}
}

func (g G) callText(env exprEnv, depth int) string {
	name := "unknownfn"
	var f m.FuncM
	known := false
	if len(env.funcs) > 0 && g.Chance(85) {
		name = Pick(g, sortedKeys(env.funcs))
		f = env.funcs[name]
		known = true
	}
	var args []string
	if known {
		for _, p := range f.Params {
			args = append(args, g.exprOfType(p.Ty.Cty(), env, depth))
		}
		if f.VarParam != nil {
			n := g.Int(0, 2)
			for i := 0; i < n; i++ {
				args = append(args, g.exprOfType(f.VarParam.Ty.Cty(), env, depth))
			}
		}
		if g.Chance(12) && len(args) > 0 {
			args = args[:len(args)-1] // too few
		} else if g.Chance(10) {
			args = append(args, g.exprOfType(cty.String, env, depth)) // too many
		}
	} else {
		n := g.Int(0, 2)
		for i := 0; i < n; i++ {
			args = append(args, g.exprOfType(cty.String, env, depth))
		}
	}
	sep := ", "
	if g.Chance(10) {
		sep = ",\n    "
	}
	if strings.Contains(name, "::") && g.Chance(15) {
		name = strings.Replace(name, "::", Pick(g, []string{" :: ", ":: ", " ::", ":"}), 1)
	}
	s := name + "(" + strings.Join(args, sep)
	if len(args) > 0 && g.Chance(45) {
		s += Pick(g, []string{",", "...", "...", "...", "..."}) // trailing comma / expanded final argument
	}
	return s + ")"
}

var typeDecls = []string{"string", "number", "bool", "any", "list(string)", "set(number)", "map(any)", "object({a = string, n = number})",
	"tuple([string, bool])", "list(object({a = optional(string)}))", "object({})", "map(list(string))",
	// quoted (and empty) attribute names
	// empty parentheses behind a complex type name (completion offers the inner skeleton there)
	"object()", "tuple()", "list()", "map( )",
	`object({ "a" = string })`, `object({"k" = list(number), b = bool})`, `object({ "" = string })`, `map(object({"é" = any}))`}

// exprFor generates expression text for an attribute with constraint c.
func (g G) exprFor(c m.ConsM, env exprEnv, depth int) string {
	if !env.simple && !env.typed && g.Chance(6) {
		// deliberately mismatching expression
		return g.exprOfType(g.Type(1), env, 1)
	}
	switch c.K {
	case "any":
		return g.exprOfType(c.Ty.Cty(), env, depth)
	case "ref":
		if g.Chance(10) {
			return quoteHCL(Pick(g, refPool)) // legacy quoted reference / plain string
		}
		return g.refText(env)
	case "littype":
		return literalText(g, g.Val(concretise(c.Ty.Cty())), true)
	case "litval":
		if g.Chance(75) {
			return literalText(g, c.Val.Cty(), true)
		}
		return literalText(g, g.Val(c.Val.Ty.Cty()), true)
	case "keyword":
		if g.Chance(70) {
			return c.Kw
		}
		if g.Chance(40) {
			// the keyword as the root of a longer traversal: not the keyword
			return c.Kw + Pick(g, []string{".name", "[0]", ".a.b", "[\"k\"]"})
		}
		return Pick(g, []string{"kw", "kwx", "k"})
	case "typedecl":
		return Pick(g, typeDecls)
	case "list", "set":
		n := g.Int(0, 3)
		var parts []string
		for i := 0; i < n; i++ {
			if c.Elem != nil {
				parts = append(parts, g.exprFor(*c.Elem, env, depth-1))
			} else {
				parts = append(parts, g.exprOfType(cty.String, env, 0))
			}
		}
		if g.Chance(15) && len(parts) > 0 {
			return "[\n    " + strings.Join(parts, ",\n    ") + ",\n  ]"
		}
		return "[" + strings.Join(parts, ", ") + "]"
	case "tuple":
		var parts []string
		for _, e := range c.Elems {
			parts = append(parts, g.exprFor(e, env, depth-1))
		}
		if g.Chance(10) {
			parts = append(parts, `"extra"`)
		}
		return "[" + strings.Join(parts, ", ") + "]"
	case "map":
		n := g.Int(0, 3)
		var parts []string
		for i := 0; i < n; i++ {
			k := Pick(g, []string{"k1", `"k2"`, `"é"`, `"a b"`, "(var.a)", `"${var.ab}"`, "k-3"})
			v := `"v"`
			if c.Elem != nil {
				v = g.exprFor(*c.Elem, env, depth-1)
			}
			parts = append(parts, k+Pick(g, []string{" = ", " = ", ": "})+v)
		}
		return g.braces(parts)
	case "object":
		var parts []string
		for _, n := range sortedKeys(c.Attrs) {
			a := c.Attrs[n]
			p := 50
			if a.Required() {
				p = 90
			}
			if !g.Chance(p) {
				continue
			}
			k := n
			if !isIdent(n) || g.Chance(20) {
				k = quoteHCL(n)
			}
			parts = append(parts, k+" = "+g.exprFor(a.Cons, env, depth-1))
		}
		if g.Chance(8) {
			parts = append(parts, "zz_unknown = 1")
		}
		if len(parts) > 0 && g.Chance(8) {
			// a key that is no literal name, right behind a known one
			k := Pick(g, []string{"42", "(var.a)", `("zz")`, `"${var.ab}"`, "var.a"})
			i := g.Int(1, len(parts))
			parts = append(parts[:i], append([]string{k + " = " + Pick(g, []string{`"b"`, "1", "true"})}, parts[i:]...)...)
		}
		return g.braces(parts)
	case "oneof":
		if len(c.Elems) == 0 {
			return g.exprOfType(cty.String, env, 1)
		}
		return g.exprFor(Pick(g, c.Elems), env, depth)
	}
	return "null"
}

func (g G) braces(parts []string) string {
	if len(parts) == 0 {
		return Pick(g, []string{"{}", "{ }", "{\n  }"})
	}
	if g.Chance(50) {
		return "{\n    " + strings.Join(parts, "\n    ") + "\n  }"
	}
	return "{ " + strings.Join(parts, ", ") + " }"
}

// par wraps a compound operand in parentheses so that operator precedence
// cannot re-associate what the generator meant.
func par(s string) string {
	if strings.ContainsAny(s, " \n?:") || strings.HasPrefix(s, "-") || strings.HasPrefix(s, "!") {
		if strings.HasPrefix(s, "(") && strings.HasSuffix(s, ")") && strings.Count(s, "(") == 1 {
			return s
		}
		return "(" + s + ")"
	}
	return s
}
