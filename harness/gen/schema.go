package gen

import (
	"fmt"

	"github.com/zclconf/go-cty/cty"

	m "verif/harness/model"
)

var (
	AttrNames  = []string{"a", "ab", "abc", "b1", "name", "type", "id", "count", "for_each", "x-y", "é1", "src", "val", "c", "ca"}
	BlockNames = []string{"blk", "b1", "res", "ab", "nest", "dynamic", "content", "mod", "c2", "resource"}
	LabelVals  = []string{"aws", "az", "t1"}
	RootNames  = []string{"var", "res", "local", "data"}
	Scopes     = []string{"", "", "var", "res"}
	ModNames   = []string{"hcl-dependent", "m1", "m2"}
	PathNames  = []string{"p0", "p1", "p2"}
)

type SchemaOpts struct {
	MaxDepth  int  // nesting depth of blocks (root = 0)
	Wide      bool // allow wide bodies (>= 13 entries)
	Huge      bool // allow populations around the candidate limit (95..130)
	NoHooks   bool
	HookPct   int      // percent chance that an attribute has a completion hook (default 8)
	Paths     []string // names of paths that may be referenced by path targets
	NoAnyAttr bool
	LitOnly   bool // only constraints expressible in both syntaxes (C19)
	AddrPct   int  // percent chance that an attribute is addressable (default 25)
	DepBoost  bool // make dependent bodies (label keys, attribute keys, second level) much more likely
}

func (g G) Type(depth int) cty.Type {
	if depth <= 0 {
		return Pick(g, []cty.Type{cty.String, cty.Number, cty.Bool, cty.DynamicPseudoType, cty.String})
	}
	switch g.Weighted(40, 10, 8, 8, 10, 6, 6) {
	case 0:
		return g.Type(0)
	case 1:
		return cty.List(g.Type(depth - 1))
	case 2:
		return cty.Set(g.Type(0))
	case 3:
		return cty.Map(g.Type(depth - 1))
	case 4:
		n := g.Int(0, 3)
		attrs := map[string]cty.Type{}
		var opt []string
		for i := 0; i < n; i++ {
			name := Pick(g, []string{"a", "ab", "k", "é", "n-1"})
			attrs[name] = g.Type(depth - 1)
			if g.Chance(20) {
				opt = append(opt, name)
			}
		}
		if len(opt) > 0 {
			// de-duplicate
			seen := map[string]bool{}
			var o2 []string
			for _, o := range opt {
				if !seen[o] {
					seen[o] = true
					o2 = append(o2, o)
				}
			}
			return cty.ObjectWithOptionalAttrs(attrs, o2)
		}
		return cty.Object(attrs)
	case 5:
		n := g.Int(0, 3)
		ts := make([]cty.Type, n)
		for i := range ts {
			ts[i] = g.Type(depth - 1)
		}
		return cty.Tuple(ts)
	default:
		obj := cty.Object(map[string]cty.Type{"a": cty.String, "n": cty.Number})
		// an optional attribute between two mandatory ones (Terraform's optional() variables)
		opt := cty.ObjectWithOptionalAttrs(map[string]cty.Type{"a": cty.String, "ab": cty.Number, "k": cty.Bool, "n": cty.List(cty.String)}, []string{"ab", "n"})
		return Pick(g, []cty.Type{cty.List(obj), cty.List(obj), cty.Map(obj), cty.Map(cty.Tuple([]cty.Type{cty.String, cty.Number})), cty.Set(obj), opt, opt, cty.List(opt)})
	}
}

var strVals = []string{"aws", "az", "t1", "", "x y", "é", "a\nb", "q\"q", "v1"}

// Val generates a known, non-null value of the given type (dynamic becomes a string).
func (g G) Val(t cty.Type) cty.Value {
	switch {
	case t == cty.String || t == cty.DynamicPseudoType:
		return cty.StringVal(Pick(g, strVals))
	case t == cty.Number:
		if g.Chance(20) {
			return cty.NumberFloatVal(Pick(g, []float64{0.5, -1.25, 3.75}))
		}
		return cty.NumberIntVal(int64(g.Int(-2, 44)))
	case t == cty.Bool:
		return cty.BoolVal(g.Bool())
	case t.IsListType():
		n := g.Int(0, 3)
		if n == 0 {
			return cty.ListValEmpty(t.ElementType())
		}
		vs := make([]cty.Value, n)
		for i := range vs {
			vs[i] = g.valConcrete(t.ElementType())
		}
		return cty.ListVal(vs)
	case t.IsSetType():
		n := g.Int(0, 3)
		if n == 0 {
			return cty.SetValEmpty(t.ElementType())
		}
		vs := make([]cty.Value, n)
		for i := range vs {
			vs[i] = g.valConcrete(t.ElementType())
		}
		return cty.SetVal(vs)
	case t.IsMapType():
		n := g.Int(0, 3)
		if n == 0 {
			return cty.MapValEmpty(t.ElementType())
		}
		vs := map[string]cty.Value{}
		for i := 0; i < n; i++ {
			vs[Pick(g, []string{"k1", "k2", "é", "a b"})] = g.valConcrete(t.ElementType())
		}
		return cty.MapVal(vs)
	case t.IsObjectType():
		vs := map[string]cty.Value{}
		ats := t.AttributeTypes()
		names := make([]string, 0, len(ats))
		for n := range ats {
			names = append(names, n)
		}
		sortStrings(names)
		for _, n := range names {
			vs[n] = g.Val(ats[n])
		}
		return cty.ObjectVal(vs)
	case t.IsTupleType():
		ets := t.TupleElementTypes()
		vs := make([]cty.Value, len(ets))
		for i, et := range ets {
			vs[i] = g.Val(et)
		}
		return cty.TupleVal(vs)
	}
	return cty.StringVal("x")
}

// valConcrete generates a value for use as collection element: dynamic element
// types need a single concrete type to keep the collection well formed.
func (g G) valConcrete(t cty.Type) cty.Value {
	if t == cty.DynamicPseudoType {
		return cty.StringVal(Pick(g, strVals))
	}
	return g.Val(t)
}

func (g G) desc() string {
	return Pick(g, []string{"", "", "desc", "multi\nline **md**", "é desc"})
}

func (g G) modsList() []string {
	if g.Chance(70) {
		return nil
	}
	return Subset(g, ModNames, 50)
}

// Cons generates a constraint model. depth limits nesting.
func (g G) Cons(depth int, o SchemaOpts) m.ConsM {
	if o.LitOnly {
		return g.consLit(depth)
	}
	var k int
	if depth <= 0 {
		k = g.Weighted(30, 12, 22, 10, 6, 5, 0, 0, 0, 0, 0, 0)
	} else {
		k = g.Weighted(24, 10, 16, 8, 5, 4, 7, 4, 6, 4, 8, 8)
	}
	switch k {
	case 0:
		return m.ConsM{K: "any", Ty: m.TyOf(g.Type(depth + 1)), Skip: g.Chance(10)}
	case 1:
		switch g.Weighted(4, 4, 2, 2) {
		case 0:
			return m.ConsM{K: "ref", Scope: Pick(g, []string{"var", "res"})}
		case 1:
			return m.ConsM{K: "ref", Ty: m.TyOf(g.Type(1)), Name: Pick(g, []string{"", "refname"})}
		case 2:
			return m.ConsM{K: "ref", Ty: m.TyOf(g.Type(0)), Scope: Pick(g, []string{"var", "res"})}
		default:
			return m.ConsM{K: "ref", AddrScope: Pick(g, []string{"var", "res"})}
		}
	case 2:
		return m.ConsM{K: "littype", Ty: m.TyOf(g.Type(depth + 1)), Skip: g.Chance(10)}
	case 3:
		v := m.ValOf(g.Val(g.concreteType(depth)))
		return m.ConsM{K: "litval", Val: &v, Deprecated: g.Chance(10), Desc: g.desc()}
	case 4:
		return m.ConsM{K: "keyword", Kw: Pick(g, []string{"kw", "kwd", "other", "é"}), Name: Pick(g, []string{"", "kwname"}), Desc: g.desc()}
	case 5:
		return m.ConsM{K: "typedecl"}
	case 6, 7:
		c := m.ConsM{K: "list", Desc: g.desc(), Min: uint64(g.Int(0, 1)), Max: uint64(g.Int(0, 2))}
		if k == 7 {
			c.K = "set"
		}
		if !g.Chance(5) {
			e := g.Cons(depth-1, o)
			c.Elem = &e
		}
		return c
	case 8:
		c := m.ConsM{K: "map", Desc: g.desc(), Name: Pick(g, []string{"", "mapname"}), AllowInterpKeys: g.Chance(30), Min: uint64(g.Int(0, 1)), Max: uint64(g.Int(0, 2))}
		if !g.Chance(5) {
			e := g.Cons(depth-1, o)
			c.Elem = &e
		}
		return c
	case 9:
		c := m.ConsM{K: "tuple", Desc: g.desc()}
		n := g.Int(0, 3)
		for i := 0; i < n; i++ {
			c.Elems = append(c.Elems, g.Cons(depth-1, o))
		}
		return c
	case 10:
		c := m.ConsM{K: "object", Desc: g.desc(), Name: Pick(g, []string{"", "objname"}), AllowInterpKeys: g.Chance(30)}
		n := g.Int(0, 4)
		if o.Huge && g.Chance(10) {
			n = g.Int(95, 130)
		}
		if n > 0 {
			c.Attrs = map[string]m.AttrM{}
		}
		for i := 0; i < n; i++ {
			name := wideName([]string{"a", "ab", "k", "é", "n-1", "req"}, g.Int(0, 5))
			if n > 10 {
				name = wideName([]string{"a", "ab", "k", "é", "n-1", "req"}, i)
			}
			a := m.AttrM{Flag: Pick(g, []string{"required", "optional", "optional"}), Cons: g.Cons(depth-1, o), Desc: g.desc(), Sensitive: g.Chance(10), Deprecated: g.Chance(10)}
			c.Attrs[name] = a
		}
		return c
	default:
		c := m.ConsM{K: "oneof"}
		if g.Chance(35) {
			// the common shape "a keyword / fixed value / type, or a literal of one type", members in any order
			t := Pick(g, []cty.Type{cty.String, cty.Number, cty.Bool})
			c.Elems = []m.ConsM{
				Pick(g, []m.ConsM{{K: "keyword", Kw: "kw"}, {K: "litval", Val: ptrVal(m.ValOf(cty.StringVal("fixed")))}, {K: "typedecl"}}),
				Pick(g, []m.ConsM{{K: "littype", Ty: m.TyOf(t)}, {K: "any", Ty: m.TyOf(t)}}),
			}
			if g.Chance(30) {
				c.Elems = append(c.Elems, m.ConsM{K: "keyword", Kw: "other"})
			}
			c.Elems = Perm(g, c.Elems)
			return c
		}
		n := g.Int(0, 3)
		for i := 0; i < n; i++ {
			c.Elems = append(c.Elems, g.Cons(depth-1, o))
		}
		return c
	}
}

func ptrVal(v m.ValM) *m.ValM { return &v }

// consLit only generates literal-ish constraints usable in both syntaxes.
func (g G) consLit(depth int) m.ConsM {
	switch g.Weighted(40, 30, 30) {
	case 0:
		return m.ConsM{K: "any", Ty: m.TyOf(g.Type(depth + 1))}
	case 1:
		return m.ConsM{K: "littype", Ty: m.TyOf(g.Type(depth + 1))}
	default:
		return m.ConsM{K: "any", Ty: m.TyOf(cty.DynamicPseudoType)}
	}
}

func (g G) concreteType(depth int) cty.Type {
	t := g.Type(depth)
	return concretise(t)
}

func concretise(t cty.Type) cty.Type {
	switch {
	case t == cty.DynamicPseudoType:
		return cty.String
	case t.IsListType():
		return cty.List(concretise(t.ElementType()))
	case t.IsSetType():
		return cty.Set(concretise(t.ElementType()))
	case t.IsMapType():
		return cty.Map(concretise(t.ElementType()))
	case t.IsObjectType():
		at := map[string]cty.Type{}
		for n, a := range t.AttributeTypes() {
			at[n] = concretise(a)
		}
		return cty.Object(at)
	case t.IsTupleType():
		ets := t.TupleElementTypes()
		out := make([]cty.Type, len(ets))
		for i, e := range ets {
			out[i] = concretise(e)
		}
		return cty.Tuple(out)
	}
	return t
}

func (g G) Attr(depth int, o SchemaOpts) m.AttrM {
	a := m.AttrM{
		Flag:       Pick(g, []string{"required", "optional", "optional", "optional", "computed", "optional+computed"}),
		Deprecated: g.Chance(10),
		Sensitive:  g.Chance(8),
		WriteOnly:  g.Chance(8),
		Cons:       g.Cons(depth, o),
		Mods:       g.modsList(),
		Desc:       g.desc(),
	}
	hookPct := 8
	if o.HookPct > 0 {
		hookPct = o.HookPct
	}
	if !o.NoHooks && g.Chance(hookPct) {
		a.Hooks = []string{Pick(g, []string{"h0", "h3", "h3", "h150", "herr", "hmissing"})}
		if o.HookPct > 0 && g.Chance(60) {
			// hooks only run for string-typed constraints
			a.Cons = Pick(g, []m.ConsM{{K: "littype", Ty: m.TyOf(cty.String)}, {K: "any", Ty: m.TyOf(cty.String)}})
		}
	}
	return a
}

func (g G) attrAddr() *m.AttrAddrM {
	a := &m.AttrAddrM{
		Scope:        Pick(g, Scopes),
		FriendlyName: Pick(g, []string{"", "friendly"}),
	}
	switch g.Weighted(50, 30, 10, 10) {
	case 0:
		a.Steps = []m.StepM{{K: "static", Name: Pick(g, RootNames)}, {K: "attrname"}}
	case 1:
		a.Steps = []m.StepM{{K: "attrname"}}
	case 2:
		a.Steps = []m.StepM{{K: "static", Name: Pick(g, RootNames)}, {K: "static", Name: "mid"}, {K: "attrname"}}
	default:
		a.Steps = []m.StepM{} // unresolvable (empty) address
	}
	switch g.Weighted(40, 30, 30) {
	case 0:
		a.AsExprType = true
	case 1:
		a.AsReference = true
	default:
		a.AsExprType, a.AsReference = true, true
	}
	return a
}

func (g G) entries(o SchemaOpts, small int) int {
	if o.Huge && g.Chance(25) {
		return g.Int(95, 130)
	}
	if o.Wide && g.Chance(35) {
		return g.Int(13, 40)
	}
	return g.Int(0, small)
}

func wideName(pool []string, i int) string {
	if i < len(pool) {
		return pool[i]
	}
	return fmt.Sprintf("%s%d", pool[i%len(pool)], i/len(pool))
}

// Body generates a body schema model. level 0 is the root body.
func (g G) Body(level int, o SchemaOpts, isDep bool) m.BodyM {
	b := m.BodyM{
		Desc:       g.desc(),
		Detail:     Pick(g, []string{"", "", "detail"}),
		Deprecated: g.Chance(5),
	}
	consDepth := 2
	if level >= 2 {
		consDepth = 1
	}
	// attributes
	if !o.NoAnyAttr && g.Chance(10) {
		a := g.Attr(consDepth, o)
		if g.Chance(40) {
			a.Addr = g.attrAddr()
		}
		b.AnyAttr = &a
	} else {
		n := g.entries(o, 5)
		if n > 0 {
			b.Attrs = map[string]m.AttrM{}
		}
		names := Perm(g, AttrNames)
		for i := 0; i < n; i++ {
			a := g.Attr(consDepth, o)
			ap := o.AddrPct
			if ap == 0 {
				ap = 25
			}
			if g.Chance(ap) {
				a.Addr = g.attrAddr()
			}
			if len(o.Paths) > 1 && g.Chance(8) {
				a.OriginFor = &m.PathTargetM{
					Steps: []m.StepM{{K: "static", Name: Pick(g, RootNames)}, {K: "attrname"}},
					Path:  Pick(g, o.Paths),
					Scope: Pick(g, Scopes),
					Ty:    m.TyOf(g.Type(0)),
				}
			}
			b.Attrs[wideName(names, i)] = a
		}
	}
	// blocks
	if level < o.MaxDepth {
		n := g.entries(o, 3)
		if n > 0 {
			b.Blocks = map[string]m.BlockM{}
		}
		names := Perm(g, BlockNames)
		for i := 0; i < n; i++ {
			b.Blocks[wideName(names, i)] = g.Block(level+1, o)
		}
	}
	// extensions
	extPct, dynPct := 35, 40
	if o.DepBoost {
		// merged bodies propagate the dynamic-blocks extension into nested block schemas
		extPct, dynPct = 60, 65
	}
	if g.Chance(extPct) {
		b.Ext = &m.ExtM{Count: g.Chance(50), ForEach: g.Chance(50), Dynamic: g.Chance(dynPct), SelfRefs: g.Chance(40)}
	}
	if level > 0 || isDep {
		tgtPct := 15
		if o.DepBoost {
			tgtPct = 30 // targetables of the static and of the dependent body are merged
		}
		if g.Chance(tgtPct) {
			n := g.Int(1, 2)
			for i := 0; i < n; i++ {
				b.TargetableAs = append(b.TargetableAs, g.targetable(1))
			}
		}
		if g.Chance(20) {
			b.DocsLink = &m.LinkM{URL: Pick(g, []string{"https://example.com/docs", "https://example.com/d?x=1", "%zz"}), Tooltip: Pick(g, []string{"", "tip"})}
		}
		if g.Chance(20) {
			b.HoverURL = Pick(g, []string{"https://example.com/hover", "%zz"})
		}
		if g.Chance(10) {
			b.Targets = &m.TargetM{
				Path:  Pick(g, append([]string{"elsewhere"}, o.Paths...)),
				Range: m.RangeM{File: "target.tf", SL: 1, SC: 1, SB: 0, EL: 1, EC: 1, EB: 0},
			}
		}
		if g.Chance(8) {
			b.Implied = append(b.Implied, m.ImpliedM{
				Origin: Pick(g, RootNames) + "." + Pick(g, AttrNames[:5]),
				Target: Pick(g, RootNames) + "." + Pick(g, AttrNames[:5]),
				Path:   Pick(g, append([]string{"elsewhere"}, o.Paths...)),
				Scope:  Pick(g, Scopes),
				Ty:     m.TyOf(g.Type(0)),
			})
		}
	}
	return b
}

func (g G) targetable(depth int) m.TargetableM {
	t := m.TargetableM{
		Addr:      Pick(g, RootNames) + "." + Pick(g, []string{"tgt", "aws", "a"}),
		Scope:     Pick(g, Scopes),
		Ty:        m.TyOf(g.Type(1)),
		Sensitive: g.Chance(10),
		Friendly:  Pick(g, []string{"", "friendly"}),
		Desc:      g.desc(),
	}
	if depth > 0 && g.Chance(40) {
		n := g.Int(1, 2)
		for i := 0; i < n; i++ {
			nt := g.targetable(depth - 1)
			nt.Addr = t.Addr + "." + Pick(g, []string{"n1", "n2"})
			t.Nested = append(t.Nested, nt)
		}
	}
	return t
}

func (g G) Block(level int, o SchemaOpts) m.BlockM {
	bl := m.BlockM{
		Type:       Pick(g, []string{"", "", "list", "set", "map", "object"}),
		Deprecated: g.Chance(8),
		Mods:       g.modsList(),
		Desc:       g.desc(),
	}
	if g.Chance(35) {
		bl.Min = uint64(g.Int(0, 3))
	}
	if g.Chance(30) {
		bl.Max = uint64(g.Int(0, 2))
	}
	nl := g.Weighted(40, 35, 20, 5)
	if o.DepBoost && nl == 0 && g.Chance(70) {
		nl = 1
	}
	for i := 0; i < nl; i++ {
		l := m.LabelM{Name: Pick(g, []string{"type", "name", "", "lbl"}), Mods: g.modsList(), Desc: g.desc()}
		dk := 45
		if o.DepBoost {
			dk = 85
		}
		if g.Chance(dk) {
			l.DepKey = true
			l.Completable = g.Chance(70)
		} else {
			l.Completable = g.Chance(10)
		}
		bl.Labels = append(bl.Labels, l)
	}
	if bl.Type == "map" && nl == 0 && g.Chance(90) {
		// map blocks are keyed by their first label
		bl.Labels = append(bl.Labels, m.LabelM{Name: "key"})
	}
	noBody := 5
	if o.DepBoost {
		noBody = 15 // blocks whose whole body comes from a dependent body
	}
	if !g.Chance(noBody) {
		body := g.Body(level, o, false)
		bl.Body = &body
	}
	// dependent-key attributes in the static body
	var depAttrNames []string
	dak := 30
	if o.DepBoost {
		dak = 65
	}
	if bl.Body != nil && len(bl.Body.Attrs) > 0 && g.Chance(dak) {
		for _, a := range sortedAttrs(bl.Body.Attrs) {
			if len(depAttrNames) < 2 && g.Chance(40) {
				aa := bl.Body.Attrs[a]
				aa.DepKey = true
				if g.Chance(60) {
					// make the key attribute something a static value can be written for
					aa.Cons = Pick(g, []m.ConsM{
						{K: "littype", Ty: m.TyOf(cty.String)},
						{K: "any", Ty: m.TyOf(cty.String)},
						{K: "littype", Ty: m.TyOf(cty.Number)},
						{K: "littype", Ty: m.TyOf(cty.Bool)},
						{K: "ref", Scope: "var"},
					})
				}
				if g.Chance(30) {
					v := m.ValOf(g.depKeyVal(aa.Cons))
					aa.Default = &v
				}
				bl.Body.Attrs[a] = aa
				depAttrNames = append(depAttrNames, a)
			}
		}
	}
	// dependent bodies
	var depLabelIdx []int
	for i, l := range bl.Labels {
		if l.DepKey {
			depLabelIdx = append(depLabelIdx, i)
		}
	}
	if (len(depLabelIdx) > 0 || len(depAttrNames) > 0) && g.Chance(85) {
		nd := g.Int(1, 3)
		if o.Huge && g.Chance(20) {
			nd = g.Int(95, 130)
		}
		seen := map[string]bool{}
		for i := 0; i < nd; i++ {
			d := m.DepM{}
			for _, li := range depLabelIdx {
				v := Pick(g, LabelVals)
				if nd > 10 {
					v = fmt.Sprintf("%s%d", v, i)
				}
				d.Labels = append(d.Labels, m.LabelKeyM{Index: li, Value: v})
			}
			for _, an := range depAttrNames {
				if len(depLabelIdx) > 0 && g.Chance(30) {
					continue // key by labels only
				}
				d.Attrs = append(d.Attrs, g.attrKey(an, bl.Body.Attrs[an].Cons))
			}
			if len(d.Labels) == 0 && len(d.Attrs) == 0 {
				continue
			}
			d.Labels = Perm(g, d.Labels)
			d.Attrs = Perm(g, d.Attrs)
			k := string(d.Key())
			if seen[k] {
				continue
			}
			seen[k] = true
			d.Body = g.Body(level, depOpts(o), true)
			bl.Deps = append(bl.Deps, d)
			// second level: a dependent body with its own key attribute
			sl := 25
			if o.DepBoost {
				sl = 60
			}
			if len(d.Attrs) == 0 && level <= 2 && g.Chance(sl) {
				kn := Pick(g, []string{"backend", "kind"})
				ka := m.AttrM{Flag: "optional", DepKey: true, Cons: m.ConsM{K: "littype", Ty: m.TyOf(cty.String)}}
				if g.Chance(25) {
					v := m.ValOf(cty.StringVal(Pick(g, LabelVals)))
					ka.Default = &v
				}
				if d.Body.AnyAttr != nil {
					d.Body.AnyAttr = nil
				}
				if d.Body.Attrs == nil {
					d.Body.Attrs = map[string]m.AttrM{}
				}
				d.Body.Attrs[kn] = ka
				bl.Deps[len(bl.Deps)-1] = d
				n2 := g.Int(1, 2)
				for j := 0; j < n2; j++ {
					d2 := m.DepM{Labels: append([]m.LabelKeyM(nil), d.Labels...)}
					sv := m.ValOf(cty.StringVal(Pick(g, LabelVals)))
					d2.Attrs = []m.AttrKeyM{{Name: kn, Static: &sv}}
					k2 := string(d2.Key())
					if seen[k2] {
						continue
					}
					seen[k2] = true
					d2.Body = g.Body(level, depOpts(o), true)
					// the second-level body repeats the key attribute, as real schemas do
					if g.Chance(80) {
						if d2.Body.AnyAttr != nil {
							d2.Body.AnyAttr = nil
						}
						if d2.Body.Attrs == nil {
							d2.Body.Attrs = map[string]m.AttrM{}
						}
						d2.Body.Attrs[kn] = ka
					}
					bl.Deps = append(bl.Deps, d2)
				}
			}
		}
	}
	// address
	if g.Chance(55) {
		bl.Addr = g.blockAddr(bl)
	}
	return bl
}

func depOpts(o SchemaOpts) SchemaOpts {
	o.Huge = false
	if o.MaxDepth > 2 {
		o.MaxDepth = 2
	}
	return o
}

func sortedAttrs(a map[string]m.AttrM) []string {
	out := make([]string, 0, len(a))
	for n := range a {
		out = append(out, n)
	}
	sortStrings(out)
	return out
}

func (g G) depKeyVal(c m.ConsM) cty.Value {
	switch c.K {
	case "littype", "any":
		t := c.Ty.Cty()
		if t == cty.Number {
			return cty.NumberIntVal(int64(g.Int(1, 3)))
		}
		if t == cty.Bool {
			return cty.BoolVal(g.Bool())
		}
	}
	return cty.StringVal(Pick(g, LabelVals))
}

func (g G) attrKey(name string, c m.ConsM) m.AttrKeyM {
	if c.K == "ref" || g.Chance(10) {
		return m.AttrKeyM{Name: name, Addr: Pick(g, []string{"var.aws", "var.az", "res.t1"})}
	}
	v := m.ValOf(g.depKeyVal(c))
	return m.AttrKeyM{Name: name, Static: &v}
}

func (g G) blockAddr(bl m.BlockM) *m.BlockAddrM {
	a := &m.BlockAddrM{
		Scope:        Pick(g, Scopes),
		FriendlyName: Pick(g, []string{"", "friendly"}),
	}
	a.Steps = []m.StepM{{K: "static", Name: Pick(g, RootNames)}}
	if g.Chance(10) {
		a.Steps = nil
	}
	for i := range bl.Labels {
		if g.Chance(85) {
			a.Steps = append(a.Steps, m.StepM{K: "label", Index: uint(i)})
		}
	}
	if g.Chance(5) {
		a.Steps = append(a.Steps, m.StepM{K: "label", Index: uint(len(bl.Labels) + 1)})
	}
	if bl.Body != nil && len(bl.Body.Attrs) > 0 && g.Chance(15) {
		names := sortedAttrs(bl.Body.Attrs)
		a.Steps = append(a.Steps, m.StepM{K: "attrvalue", Name: Pick(g, names), Optional: g.Bool()})
	}
	a.AsReference = g.Chance(40)
	a.BodyAsData = g.Chance(45)
	if a.BodyAsData {
		a.InferBody = g.Chance(70)
		if a.InferBody {
			a.BodySelfRef = g.Chance(40)
		}
	}
	if len(bl.Deps) > 0 || g.Chance(5) {
		a.DepBodyAsData = g.Chance(50)
		if a.DepBodyAsData {
			a.InferDepBody = g.Chance(70)
			if a.InferDepBody {
				a.DepBodySelfRef = g.Chance(40)
			}
		}
	}
	a.UnknownNestedRefs = g.Chance(15)
	if bl.Body != nil && g.Chance(20) {
		a.HasAsTypeOf = true
		// only name an attribute the body declares (see DESIGN §3.1)
		var tds []string
		for _, n := range sortedAttrs(bl.Body.Attrs) {
			tds = append(tds, n)
		}
		if len(tds) > 0 && g.Chance(85) {
			a.AsTypeOf = Pick(g, tds)
		}
	}
	if !a.AsReference && !a.BodyAsData && !a.DepBodyAsData && !a.UnknownNestedRefs && !a.HasAsTypeOf {
		a.AsReference = true
	}
	return a
}

// Funcs generates a function table.
func (g G) Funcs(wide bool, huge ...bool) map[string]m.FuncM {
	n := g.Int(0, 4)
	if wide && g.Chance(40) {
		n = g.Int(13, 30)
	}
	if len(huge) > 0 && huge[0] && g.Chance(40) {
		n = g.Int(95, 130)
	}
	if n == 0 {
		return nil
	}
	out := map[string]m.FuncM{}
	names := []string{"f", "fn", "g", "lower", "join", "f2", "h"}
	if g.Chance(50) {
		names = append([]string{"provider::aws::fo", "ns::f", "ns::fé"}, names...)
	}
	if g.Chance(30) {
		names = Perm(g, names)
	}
	for i := 0; i < n; i++ {
		f := m.FuncM{Ret: m.TyOf(g.Type(1)), Desc: g.desc()}
		np := g.Int(0, 3)
		for j := 0; j < np; j++ {
			f.Params = append(f.Params, m.ParamM{Name: fmt.Sprintf("p%d", j), Ty: m.TyOf(g.Type(1)), Desc: g.desc()})
		}
		if g.Chance(35) {
			f.VarParam = &m.ParamM{Name: "rest", Ty: m.TyOf(g.Type(0))}
		}
		out[wideName(names, i)] = f
	}
	return out
}

func (g G) Ctx() m.CtxM {
	c := m.CtxM{}
	if g.Chance(30) {
		c.UtmSource = "src"
		c.UtmMedium = Pick(g, []string{"", "med"})
		c.UseUtmContent = g.Bool()
	}
	c.Hooks = map[string]m.HookM{
		"h0":   {N: 0},
		"h3":   {N: 3},
		"h150": {N: 150},
		"herr": {Err: true},
	}
	return c
}
