package gen

import (
	"encoding/json"
	"fmt"
	"strconv"
	"strings"

	"github.com/zclconf/go-cty/cty"

	m "verif/harness/model"
)

// DualValue is a value expressible in both native and JSON syntax.
type DualValue struct {
	Kind  string      `json:"kind"` // lit|ref|bare|list|obj
	Lit   *m.ValM     `json:"lit,omitempty"`
	Ref   string      `json:"ref,omitempty"`
	Elems []DualValue `json:"elems,omitempty"`
	Keys  []string    `json:"keys,omitempty"`
}

// DualItem is an attribute or a block of a configuration expressible in both syntaxes.
type DualItem struct {
	Kind   string     `json:"kind"` // attr|block
	Name   string     `json:"name"`
	Labels []string   `json:"labels,omitempty"`
	Value  *DualValue `json:"value,omitempty"`
	Body   []DualItem `json:"body,omitempty"`
}

func (g G) dualLit() DualValue {
	v := m.ValOf(Pick(g, []cty.Value{cty.StringVal("s"), cty.StringVal("é x"), cty.NumberIntVal(1), cty.NumberFloatVal(2.5), cty.True, cty.False}))
	return DualValue{Kind: "lit", Lit: &v}
}

func (g G) dualValue(depth int) DualValue {
	switch g.Weighted(35, 30, 15, 20) {
	case 0:
		return g.dualLit()
	case 1:
		return DualValue{Kind: "ref", Ref: g.refAddr(true)}
	case 2:
		if depth <= 0 {
			return g.dualLit()
		}
		n := g.Int(0, 3)
		v := DualValue{Kind: "list"}
		for i := 0; i < n; i++ {
			v.Elems = append(v.Elems, g.dualValue(depth-1))
		}
		return v
	default:
		if depth <= 0 {
			return DualValue{Kind: "ref", Ref: g.refAddr(true)}
		}
		v := DualValue{Kind: "obj"}
		for _, k := range Subset(g, []string{"k", "z", "n"}, 60) {
			v.Keys = append(v.Keys, k)
			v.Elems = append(v.Elems, g.dualValue(depth-1))
		}
		return v
	}
}

// DualConfig generates a configuration for refSchema(simple) expressible in both syntaxes.
func (g G) DualConfig() []DualItem {
	var items []DualItem
	n := g.Int(3, 8)
	usedVar, usedOut, usedData := map[string]bool{}, map[string]bool{}, map[string]bool{}
	usedRes := map[string]bool{}
	locals := false
	for i := 0; i < n; i++ {
		switch g.Weighted(25, 20, 30, 10, 15) {
		case 0:
			nm := Pick(g, refNames)
			if usedVar[nm] {
				continue
			}
			usedVar[nm] = true
			it := DualItem{Kind: "block", Name: "variable", Labels: []string{nm}}
			if g.Chance(60) {
				it.Body = append(it.Body, DualItem{Kind: "attr", Name: "default", Value: ptrDV(g.dualValue(2))})
			}
			items = append(items, it)
		case 1:
			if locals {
				continue
			}
			locals = true
			it := DualItem{Kind: "block", Name: "locals"}
			for _, nm := range Subset(g, refNames, 70) {
				it.Body = append(it.Body, DualItem{Kind: "attr", Name: nm, Value: ptrDV(g.dualValue(2))})
			}
			if g.Chance(45) {
				it.Body = append(it.Body, DualItem{Kind: "block", Name: "meta", Body: []DualItem{{Kind: "attr", Name: "note", Value: ptrDV(g.dualLitString())}}})
			}
			items = append(items, it)
		case 2:
			typ, nm := Pick(g, append([]string{"other"}, refTypes...)), Pick(g, refNames)
			if usedRes[typ+"."+nm] {
				continue
			}
			usedRes[typ+"."+nm] = true
			it := DualItem{Kind: "block", Name: "resource", Labels: []string{typ, nm}}
			for _, an := range []string{"name", "size", "tags", "any", "ami", typ + "_id"} {
				if !g.Chance(45) {
					continue
				}
				if typ == "other" && (an == "ami" || an == typ+"_id") {
					continue // only attributes the schema knows: JSON cannot tell unknown attributes from blocks
				}
				var v DualValue
				switch an {
				case "tags":
					v = DualValue{Kind: "obj", Keys: []string{"k"}, Elems: []DualValue{Pick(g, []DualValue{g.dualLitString(), {Kind: "ref", Ref: g.refAddr(true)}})}}
				case "size":
					nv := m.ValOf(cty.NumberIntVal(int64(g.Int(1, 9))))
					v = Pick(g, []DualValue{{Kind: "lit", Lit: &nv}, {Kind: "ref", Ref: g.refAddr(true)}})
				case "any":
					v = g.dualValue(2)
				default:
					v = Pick(g, []DualValue{g.dualLitString(), {Kind: "ref", Ref: g.refAddr(true)}})
				}
				it.Body = append(it.Body, DualItem{Kind: "attr", Name: an, Value: &v})
			}
			if typ != "other" && g.Chance(40) {
				mode := Pick(g, []string{"x", "y", "y"})
				mv := m.ValOf(cty.StringVal(mode))
				it.Body = append(it.Body, DualItem{Kind: "attr", Name: "mode", Value: &DualValue{Kind: "lit", Lit: &mv}})
				if mode == "x" && g.Chance(60) {
					// (declared only under mode = "x"; JSON cannot keep what the schema does not know)
					v := g.dualLitString()
					it.Body = append(it.Body, DualItem{Kind: "attr", Name: "xa", Value: &v})
				}
			}
			if g.Chance(30) {
				it.Body = append(it.Body, DualItem{Kind: "attr", Name: "dep", Value: &DualValue{Kind: "list", Elems: []DualValue{{Kind: Pick(g, []string{"ref", "bare"}), Ref: Pick(g, refTypes) + "." + Pick(g, refNames)}}}})
			}
			nd := g.Int(0, 3)
			for k := 0; k < nd; k++ {
				nv := m.ValOf(cty.NumberIntVal(int64(10 + k)))
				// (the blocks of one resource differ in what they declare, so their order is observable)
				db := []DualItem{{Kind: "attr", Name: "gb", Value: &DualValue{Kind: "lit", Lit: &nv}}}
				if k == 1 || g.Chance(30) {
					db = append(db, DualItem{Kind: "attr", Name: "path", Value: ptrDV(g.dualLitString())})
				}
				if g.Chance(25) {
					db = db[1:]
				}
				it.Body = append(it.Body, DualItem{Kind: "block", Name: "disk", Body: db})
			}
			items = append(items, it)
		case 3:
			nm := Pick(g, refNames)
			if usedData[nm] {
				continue
			}
			usedData[nm] = true
			it := DualItem{Kind: "block", Name: "data", Labels: []string{nm}, Body: []DualItem{{Kind: "attr", Name: "q", Value: ptrDV(g.dualLitString())}}}
			if g.Chance(55) {
				// a reference that declares the address it names (Reference.Address): interpolated or legacy bare string in JSON
				av := DualValue{Kind: Pick(g, []string{"ref", "bare"}), Ref: "prov." + Pick(g, refNames) + Pick(g, []string{"", "", ".west"})}
				if g.Chance(25) {
					// a string index step: only as legacy bare string in JSON (the interpolated form is the
					// escaped-index finding recorded for origins)
					av = DualValue{Kind: "bare", Ref: "prov." + Pick(g, refNames) + Pick(g, []string{`["k"]`, `["a b"].x`, `[0]`})}
				}
				it.Body = append(it.Body, DualItem{Kind: "attr", Name: "alias", Value: &av})
			}
			items = append(items, it)
		default:
			nm := Pick(g, refNames)
			if usedOut[nm] {
				continue
			}
			usedOut[nm] = true
			it := DualItem{Kind: "block", Name: "output", Labels: []string{nm}}
			for _, an := range []string{"value", "str", "of", "ofres", "one", "lst", "mp", "ob", "lit", "cmp"} {
				if !g.Chance(45) {
					continue
				}
				varRef := func() DualValue { return DualValue{Kind: "ref", Ref: "var." + Pick(g, refNames)} }
				// Where a reference and a string literal are both admitted, a JSON string that parses
				// as a traversal ("s") is ambiguous - JSON cannot tell `x = s` from `x = "s"` - so
				// the literals written there are strings that are no traversal.
				strOrRef := func(ref DualValue) DualValue { return Pick(g, []DualValue{g.dualLitNoTraversal(), ref, ref}) }
				switch an {
				case "one":
					// (never the legacy bare form: a bare string is also a valid literal here)
					it.Body = append(it.Body, DualItem{Kind: "attr", Name: an, Value: ptrDV(strOrRef(varRef()))})
				case "lst":
					v := DualValue{Kind: "list"}
					for k, n := 0, g.Int(0, 3); k < n; k++ {
						v.Elems = append(v.Elems, strOrRef(DualValue{Kind: "ref", Ref: g.refAddr(true)}))
					}
					it.Body = append(it.Body, DualItem{Kind: "attr", Name: an, Value: &v})
				case "mp":
					v := DualValue{Kind: "obj"}
					for _, k := range Subset(g, []string{"k", "z", "n"}, 60) {
						v.Keys = append(v.Keys, k)
						v.Elems = append(v.Elems, DualValue{Kind: Pick(g, []string{"ref", "ref", "bare"}), Ref: "var." + Pick(g, refNames)})
					}
					it.Body = append(it.Body, DualItem{Kind: "attr", Name: an, Value: &v})
				case "ob":
					v := DualValue{Kind: "obj"}
					for _, k := range Subset(g, []string{"k", "z", "n"}, 60) {
						v.Keys = append(v.Keys, k)
						switch k {
						case "k":
							v.Elems = append(v.Elems, DualValue{Kind: Pick(g, []string{"ref", "ref", "bare"}), Ref: "var." + Pick(g, refNames)})
						case "z":
							nv := m.ValOf(cty.NumberIntVal(int64(g.Int(1, 9))))
							v.Elems = append(v.Elems, DualValue{Kind: "lit", Lit: &nv})
						default:
							v.Elems = append(v.Elems, strOrRef(DualValue{Kind: "ref", Ref: Pick(g, refTypes) + "." + Pick(g, refNames)}))
						}
					}
					it.Body = append(it.Body, DualItem{Kind: "attr", Name: an, Value: &v})
				case "lit":
					it.Body = append(it.Body, DualItem{Kind: "attr", Name: an, Value: ptrDV(g.dualLitString())})
				case "of", "cmp":
					// ("cmp" is computed-only: assigning it is a validation matter, the reference written is a reference all the same)
					it.Body = append(it.Body, DualItem{Kind: "attr", Name: an, Value: &DualValue{Kind: Pick(g, []string{"ref", "bare"}), Ref: "var." + Pick(g, refNames)}})
				case "ofres":
					it.Body = append(it.Body, DualItem{Kind: "attr", Name: an, Value: &DualValue{Kind: Pick(g, []string{"ref", "bare"}), Ref: Pick(g, refTypes) + "." + Pick(g, refNames)}})
				case "str":
					it.Body = append(it.Body, DualItem{Kind: "attr", Name: an, Value: ptrDV(Pick(g, []DualValue{g.dualLitString(), {Kind: "ref", Ref: g.refAddr(true)}}))})
				default:
					it.Body = append(it.Body, DualItem{Kind: "attr", Name: an, Value: ptrDV(g.dualValue(2))})
				}
			}
			items = append(items, it)
		}
	}
	return items
}

func (g G) dualLitString() DualValue {
	v := m.ValOf(cty.StringVal(Pick(g, []string{"s", "é x", "lit"})))
	return DualValue{Kind: "lit", Lit: &v}
}

func (g G) dualLitNoTraversal() DualValue {
	v := m.ValOf(cty.StringVal(Pick(g, []string{"é x", "two words", "a/b", ""})))
	return DualValue{Kind: "lit", Lit: &v}
}

func ptrDV(v DualValue) *DualValue { return &v }

// RefSchemaSimple exposes the schema the dual configurations are written for.
func (g G) RefSchemaSimple() m.BodyM {
	root := g.refSchema([]string{"p0"}, 0, true)
	// constraint kinds beyond any-expression, each expressible in both syntaxes
	out := root.Blocks["output"]
	refVar := m.ConsM{K: "ref", Scope: "variable"}
	litStr := m.ConsM{K: "littype", Ty: m.TyOf(cty.String)}
	out.Body.Attrs["one"] = m.AttrM{Flag: "optional", Cons: m.ConsM{K: "oneof", Elems: []m.ConsM{refVar, litStr}}}
	out.Body.Attrs["lst"] = m.AttrM{Flag: "optional", Cons: m.ConsM{K: "list", Elem: &m.ConsM{K: "oneof", Elems: []m.ConsM{{K: "ref", Ty: m.TyOf(cty.String)}, litStr}}}}
	out.Body.Attrs["mp"] = m.AttrM{Flag: "optional", Cons: m.ConsM{K: "map", Elem: &refVar}}
	out.Body.Attrs["ob"] = m.AttrM{Flag: "optional", Cons: m.ConsM{K: "object", Attrs: map[string]m.AttrM{
		"k": {Flag: "optional", Cons: refVar},
		"z": {Flag: "optional", Cons: m.ConsM{K: "littype", Ty: m.TyOf(cty.Number)}},
		"n": {Flag: "optional", Cons: m.ConsM{K: "oneof", Elems: []m.ConsM{{K: "ref", Scope: "resource"}, litStr}}},
	}}}
	out.Body.Attrs["lit"] = m.AttrM{Flag: "optional", Cons: litStr}
	out.Body.Attrs["cmp"] = m.AttrM{Flag: "computed", Cons: refVar}
	root.Blocks["output"] = out
	// second level: the dependent bodies of resource (keyed by the type label) declare a key
	// attribute of their own; a further body is registered under one of its values only
	res := root.Blocks["resource"]
	nfirst := len(res.Deps)
	for i := 0; i < nfirst; i++ {
		res.Deps[i].Body.Attrs["mode"] = m.AttrM{Flag: "optional", DepKey: true, Cons: litStr}
		xv := m.ValOf(cty.StringVal("x"))
		// (a second-level body replaces the first-level one, so it repeats what that one declares)
		second := m.BodyM{Attrs: map[string]m.AttrM{"xa": {Flag: "optional", Cons: anyOf(cty.String)}}, Ext: res.Deps[i].Body.Ext}
		for n, a := range res.Deps[i].Body.Attrs {
			second.Attrs[n] = a
		}
		res.Deps = append(res.Deps, m.DepM{Labels: append([]m.LabelKeyM(nil), res.Deps[i].Labels...), Attrs: []m.AttrKeyM{{Name: "mode", Static: &xv}}, Body: second})
	}
	root.Blocks["resource"] = res
	data := root.Blocks["data"]
	data.Body.Attrs["alias"] = m.AttrM{Flag: "optional", Cons: m.ConsM{K: "ref", AddrScope: "alias", Name: "alias"}}
	root.Blocks["data"] = data
	return root
}

// ---------------------------------------------------------------- rendering

func (v DualValue) native() string {
	switch v.Kind {
	case "lit":
		return literalText(G{}, v.Lit.Cty(), false)
	case "ref":
		return v.Ref
	case "bare":
		return v.Ref // (only the JSON rendering uses the legacy bare-string form)
	case "list":
		parts := make([]string, len(v.Elems))
		for i, e := range v.Elems {
			parts[i] = e.native()
		}
		return "[" + strings.Join(parts, ", ") + "]"
	case "obj":
		parts := make([]string, len(v.Elems))
		for i, e := range v.Elems {
			parts[i] = v.Keys[i] + " = " + e.native()
		}
		return "{ " + strings.Join(parts, ", ") + " }"
	}
	return "null"
}

// RenderNative renders items in native syntax.
func RenderNative(items []DualItem, indent string) string {
	var sb strings.Builder
	for _, it := range items {
		if it.Kind == "attr" {
			fmt.Fprintf(&sb, "%s%s = %s\n", indent, it.Name, it.Value.native())
			continue
		}
		sb.WriteString(indent + it.Name)
		for _, l := range it.Labels {
			sb.WriteString(" " + strconv.Quote(l))
		}
		sb.WriteString(" {\n")
		sb.WriteString(RenderNative(it.Body, indent+"  "))
		sb.WriteString(indent + "}\n")
	}
	return sb.String()
}

func (v DualValue) jsonValue() interface{} {
	switch v.Kind {
	case "lit":
		var x interface{}
		_ = json.Unmarshal(v.Lit.V, &x)
		return x
	case "ref":
		return "${" + v.Ref + "}"
	case "bare":
		return v.Ref
	case "list":
		out := make([]interface{}, len(v.Elems))
		for i, e := range v.Elems {
			out[i] = e.jsonValue()
		}
		return out
	case "obj":
		out := orderedMap{}
		for i, e := range v.Elems {
			out = append(out, kv{v.Keys[i], e.jsonValue()})
		}
		return out
	}
	return nil
}

type kv struct {
	K string
	V interface{}
}

// orderedMap marshals as a JSON object preserving insertion order (JSON bodies
// keep source order for ranges, which matters for sorted results).
type orderedMap []kv

func (o orderedMap) MarshalJSON() ([]byte, error) {
	var sb strings.Builder
	sb.WriteString("{")
	for i, e := range o {
		if i > 0 {
			sb.WriteString(",")
		}
		k, _ := json.Marshal(e.K)
		v, err := json.Marshal(e.V)
		if err != nil {
			return nil, err
		}
		sb.Write(k)
		sb.WriteString(":")
		sb.Write(v)
	}
	sb.WriteString("}")
	return []byte(sb.String()), nil
}

func bodyJSON(items []DualItem) orderedMap {
	out := orderedMap{}
	// blocks of the same type are grouped: {"type": [ {labels...: body}, ... ]}
	blockGroups := map[string][]interface{}{}
	var blockOrder []string
	for _, it := range items {
		if it.Kind == "attr" {
			out = append(out, kv{it.Name, it.Value.jsonValue()})
			continue
		}
		var inner interface{} = bodyJSON(it.Body)
		for i := len(it.Labels) - 1; i >= 0; i-- {
			inner = orderedMap{{it.Labels[i], inner}}
		}
		if _, ok := blockGroups[it.Name]; !ok {
			blockOrder = append(blockOrder, it.Name)
		}
		blockGroups[it.Name] = append(blockGroups[it.Name], inner)
	}
	for _, n := range blockOrder {
		out = append(out, kv{n, blockGroups[n]})
	}
	return out
}

// RenderJSONLayout renders items in HCL's JSON syntax with hand-made layout: layout[i] picks
// the white space written at the i-th opportunity (after "{", "[", "," and before "}", "]"),
// cyclically. An empty layout gives the regular two-space indentation.
func RenderJSONLayout(items []DualItem, layout []int) string {
	if len(layout) == 0 {
		return RenderJSON(items)
	}
	b, err := json.Marshal(bodyJSON(items))
	if err != nil {
		panic(err)
	}
	ws := []string{"", " ", "\n", "\n  ", "\n      ", "\n          ", "  ", "\n "}
	var sb strings.Builder
	n := 0
	gap := func() {
		sb.WriteString(ws[layout[n%len(layout)]%len(ws)])
		n++
	}
	inStr, esc := false, false
	for _, c := range b {
		if inStr {
			sb.WriteByte(c)
			switch {
			case esc:
				esc = false
			case c == '\\':
				esc = true
			case c == '"':
				inStr = false
			}
			continue
		}
		switch c {
		case '"':
			inStr = true
			sb.WriteByte(c)
		case '{', '[', ',':
			sb.WriteByte(c)
			gap()
		case '}', ']':
			gap()
			sb.WriteByte(c)
		case ':':
			sb.WriteString(": ")
		default:
			sb.WriteByte(c)
		}
	}
	return sb.String() + "\n"
}

// Layout draws a JSON layout for RenderJSONLayout (empty: regular indentation).
func (g G) Layout() []int {
	if g.Chance(40) {
		return nil
	}
	n := g.Int(3, 12)
	out := make([]int, n)
	for i := range out {
		out[i] = g.Int(0, 7)
	}
	return out
}

// RenderJSON renders items in HCL's JSON syntax.
func RenderJSON(items []DualItem) string {
	b, err := json.MarshalIndent(bodyJSON(items), "", "  ")
	if err != nil {
		panic(err)
	}
	return string(b) + "\n"
}
