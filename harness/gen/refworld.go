package gen

import (
	"encoding/json"
	"fmt"
	"strings"

	"github.com/zclconf/go-cty/cty"

	m "verif/harness/model"
)

// RefWorld generates a Terraform-like world in which references actually
// resolve: declarations (typed, type-less, nested, dynamic-typed, block-local)
// and consumers referencing exact, nested, missing and cross-path addresses.
func (g G) RefWorld(nPaths int, simple bool) m.WorldM {
	if nPaths < 1 {
		nPaths = 1
	}
	w := m.WorldM{}
	paths := PathNames[:nPaths]
	for pi := 0; pi < nPaths; pi++ {
		root := g.refSchema(paths, pi, simple)
		p := m.PathM{Path: paths[pi], Schema: &root, Validators: true}
		if !simple {
			p.Funcs = map[string]m.FuncM{
				"f":    {Params: []m.ParamM{{Name: "p0", Ty: m.TyOf(cty.DynamicPseudoType)}}, Ret: m.TyOf(cty.DynamicPseudoType)},
				"join": {Params: []m.ParamM{{Name: "sep", Ty: m.TyOf(cty.String)}}, VarParam: &m.ParamM{Name: "rest", Ty: m.TyOf(cty.DynamicPseudoType)}, Ret: m.TyOf(cty.String)},
				// parameters of mutually non-convertible types: the slot decides what fits
				"typed3": {Params: []m.ParamM{{Name: "flag", Ty: m.TyOf(cty.Bool)}, {Name: "n", Ty: m.TyOf(cty.Number)}, {Name: "xs", Ty: m.TyOf(cty.List(cty.String))}}, Ret: m.TyOf(cty.Bool)},
				"nums":   {Params: []m.ParamM{{Name: "m", Ty: m.TyOf(cty.Map(cty.Bool))}}, VarParam: &m.ParamM{Name: "rest", Ty: m.TyOf(cty.Number)}, Ret: m.TyOf(cty.Number)},
			}
		}
		nf := g.Int(1, 2)
		for fi := 0; fi < nf; fi++ {
			text := g.refConfig(root, paths, pi, simple)
			if !simple && g.Chance(8) {
				// the file breaks off inside an index step of a reference
				text += "output \"zz\" {\n  value = " + Pick(g, []string{"var.a[0", `var.b["k`, "local.a[1", "var.a["}) + Pick(g, []string{"", "\n"})
			}
			p.Files = append(p.Files, m.FileM{Name: []string{"main.tf", "b.tf"}[fi], Text: text})
		}
		w.Paths = append(w.Paths, p)
	}
	if nPaths >= 2 && !simple && g.Chance(15) {
		// the directory the module inputs of p0 point into cannot be read
		w.Paths[1].Faulty = true
	}
	if nPaths >= 3 {
		// the third path is a twin of the first (same schema, same files, another directory):
		// its origins have the same file names and ranges and point at the same declarations
		b, _ := json.Marshal(w.Paths[0])
		var twin m.PathM
		_ = json.Unmarshal(b, &twin)
		twin.Path = paths[2]
		w.Paths[2] = twin
	}
	return w
}

var (
	refNames = []string{"a", "b", "cé"} // (one multi-byte identifier: columns and prefixes must count characters, not bytes)
	refTypes = []string{"aws", "az"}
)

func anyOf(t cty.Type) m.ConsM { return m.ConsM{K: "any", Ty: m.TyOf(t)} }

func (g G) refSchema(paths []string, pi int, simple bool) m.BodyM {
	root := m.BodyM{Blocks: map[string]m.BlockM{}}
	// variable "NAME": typed by its `type` attribute, optionally also a type-less reference
	root.Blocks["variable"] = m.BlockM{
		Labels: []m.LabelM{{Name: "name"}},
		Body: &m.BodyM{Attrs: map[string]m.AttrM{
			"type":    {Flag: "optional", Cons: m.ConsM{K: "typedecl"}},
			"default": {Flag: "optional", Cons: anyOf(cty.DynamicPseudoType)},
		}},
		Addr: &m.BlockAddrM{Steps: []m.StepM{{K: "static", Name: "var"}, {K: "label", Index: 0}}, Scope: "variable",
			HasAsTypeOf: true, AsTypeOf: "type", AsReference: g.Chance(40)},
	}
	// locals: any attribute, addressable as expression type
	root.Blocks["locals"] = m.BlockM{
		Body: &m.BodyM{AnyAttr: &m.AttrM{Flag: "optional", Cons: anyOf(cty.DynamicPseudoType),
			Addr: &m.AttrAddrM{Steps: []m.StepM{{K: "static", Name: "local"}, {K: "attrname"}}, Scope: "local", AsExprType: true, AsReference: g.Chance(25)}},
			// free-form attributes and a declared block side by side in one body
			Blocks: map[string]m.BlockM{"meta": {Body: &m.BodyM{Attrs: map[string]m.AttrM{"note": {Flag: "optional", Cons: anyOf(cty.String)}}}}}},
	}
	// resource "TYPE" "NAME": body as data, inferred, self refs, count / for_each, nested blocks
	resBody := m.BodyM{
		Attrs: map[string]m.AttrM{
			"name": {Flag: "optional", Cons: anyOf(cty.String)},
			"size": {Flag: "optional", Cons: anyOf(cty.Number)},
			"tags": {Flag: "optional", Cons: anyOf(cty.Map(cty.String))},
			"dep":  {Flag: "optional", Cons: m.ConsM{K: "list", Elem: &m.ConsM{K: "ref", Scope: "resource"}}},
			"any":  {Flag: "optional", Cons: anyOf(cty.DynamicPseudoType)},
			"note": {Flag: "optional", Cons: anyOf(cty.String)},
			"meta": {Flag: "optional", Cons: m.ConsM{K: "object", Attrs: map[string]m.AttrM{
				"k":    {Flag: "optional", Cons: anyOf(cty.String)},
				"z":    {Flag: "optional", Cons: anyOf(cty.Number)},
				"flag": {Flag: "optional", Cons: anyOf(cty.Bool)},
			}}},
		},
		Blocks: map[string]m.BlockM{
			"disk": {Type: Pick(g, []string{"list", "set", "object"}), Body: &m.BodyM{Attrs: map[string]m.AttrM{
				"gb":   {Flag: "optional", Cons: anyOf(cty.Number)},
				"path": {Flag: "optional", Cons: anyOf(cty.String)},
			}}},
			"conn": {Type: "object", Body: &m.BodyM{
				Attrs: map[string]m.AttrM{"host": {Flag: "optional", Cons: anyOf(cty.String)}},
				Ext:   &m.ExtM{SelfRefs: true},
			}},
		},
		Ext: &m.ExtM{Count: true, ForEach: true, SelfRefs: g.Chance(70)},
	}
	res := m.BlockM{
		Labels: []m.LabelM{{Name: "type", DepKey: true, Completable: true}, {Name: "name"}},
		Body:   &resBody,
		Addr: &m.BlockAddrM{Steps: []m.StepM{{K: "label", Index: 0}, {K: "label", Index: 1}}, Scope: "resource",
			AsReference: g.Chance(50), BodyAsData: true, InferBody: true, BodySelfRef: true,
			DepBodyAsData: true, InferDepBody: true, DepBodySelfRef: true},
	}
	if g.Chance(30) {
		res.Addr.BodyAsData, res.Addr.InferBody, res.Addr.BodySelfRef = false, false, false
	}
	for _, t := range refTypes {
		res.Deps = append(res.Deps, m.DepM{Labels: []m.LabelKeyM{{Index: 0, Value: t}}, Body: m.BodyM{
			Attrs: map[string]m.AttrM{
				t + "_id": {Flag: "optional", Cons: anyOf(cty.String)},
				"ami":     {Flag: "optional", Cons: anyOf(cty.String)},
			},
			Ext: &m.ExtM{Count: true, ForEach: true, SelfRefs: true},
		}})
	}
	root.Blocks["resource"] = res
	// data "NAME": dynamic-typed declaration (unknown nested refs)
	root.Blocks["data"] = m.BlockM{
		Labels: []m.LabelM{{Name: "name"}},
		Body:   &m.BodyM{Attrs: map[string]m.AttrM{"q": {Flag: "optional", Cons: anyOf(cty.String)}}},
		Addr:   &m.BlockAddrM{Steps: []m.StepM{{K: "static", Name: "data"}, {K: "label", Index: 0}}, Scope: "data", UnknownNestedRefs: true},
	}
	// output "NAME": consumer, and a declaration for cross-path references
	root.Blocks["output"] = m.BlockM{
		Labels: []m.LabelM{{Name: "name"}},
		Body: &m.BodyM{Attrs: map[string]m.AttrM{
			"value": {Flag: "optional", Cons: anyOf(cty.DynamicPseudoType)},
			"str":   {Flag: "optional", Cons: anyOf(cty.String)},
			"num":   {Flag: "optional", Cons: m.ConsM{K: "oneof", Elems: []m.ConsM{{K: "ref", Ty: m.TyOf(cty.Number)}, {K: "littype", Ty: m.TyOf(cty.Number)}}}},
			"of":    {Flag: "optional", Cons: m.ConsM{K: "ref", Scope: "variable"}},
			"ofres": {Flag: "optional", Cons: m.ConsM{K: "ref", Scope: "resource"}},
		}},
		Addr: &m.BlockAddrM{Steps: []m.StepM{{K: "static", Name: "output"}, {K: "label", Index: 0}}, Scope: "output", AsReference: true},
	}
	// module "NAME": inputs are origins for variables of another path
	if len(paths) > 1 && !simple {
		other := paths[(pi+1)%len(paths)]
		modBody := m.BodyM{Attrs: map[string]m.AttrM{
			"source": {Flag: "optional", DepKey: true, Cons: m.ConsM{K: "littype", Ty: m.TyOf(cty.String)}},
		}}
		dep := m.BodyM{Attrs: map[string]m.AttrM{}, Targets: &m.TargetM{Path: other, Range: m.RangeM{File: "target.tf", SL: 1, SC: 1, EL: 1, EC: 1}}}
		for _, n := range refNames {
			dep.Attrs[n] = m.AttrM{Flag: "optional", Cons: anyOf(cty.DynamicPseudoType),
				OriginFor: &m.PathTargetM{Steps: []m.StepM{{K: "static", Name: "var"}, {K: "attrname"}}, Path: other, Scope: "variable", Ty: m.TyOf(cty.DynamicPseudoType)}}
		}
		for _, n := range refNames {
			dep.Implied = append(dep.Implied, m.ImpliedM{Origin: "module.m." + n, Target: "output." + n, Path: other, Scope: "output"})
		}
		sv := m.ValOf(cty.StringVal("./mod"))
		root.Blocks["module"] = m.BlockM{
			Labels: []m.LabelM{{Name: "name"}},
			Body:   &modBody,
			Deps:   []m.DepM{{Attrs: []m.AttrKeyM{{Name: "source", Static: &sv}}, Body: dep}},
		}
	}
	return root
}

func (g G) refAddr(simple bool) string {
	n := Pick(g, refNames)
	if g.inBlockBody && !simple && g.Chance(30) {
		// block-local names are far more common inside a resource body
		return Pick(g, []string{"count.index", "each.key", "each.value", "self.name", "self.size", "self.ami", "self"})
	}
	switch g.Weighted(20, 11, 13, 16, 8, 8, 6, 6, 6, 4, 4) {
	case 0:
		return "var." + n
	case 1:
		return "local." + n
	case 2:
		return Pick(g, refTypes) + "." + n
	case 3:
		if !simple && g.Chance(45) {
			// declarations two and three levels below the resource
			return Pick(g, refTypes) + "." + n + "." + Pick(g, []string{"disk[0]", "disk[1]", "disk[0].gb", "disk[1].path", "conn.host", `tags["k"]`, "disk[1].gb", `tags["a b"]`, `tags["say \"hi\""]`, `tags["k"]`, "any.k", "any.k.z", "any[0].k"})
		}
		return Pick(g, refTypes) + "." + n + "." + Pick(g, []string{"name", "size", "tags", "ami", "aws_id", "disk", "conn", "missing"})
	case 4:
		return "data." + n + Pick(g, []string{"", ".x", ".x.y"})
	case 5:
		if simple {
			return "var." + n
		}
		return Pick(g, []string{"count.index", "each.key", "each.value"})
	case 6:
		if simple {
			return "local." + n
		}
		return "self" + Pick(g, []string{"", ".name", ".size", ".ami", ".disk", ".host", ".disk[0].gb", ".disk[1].path", ".meta.k", ".meta.flag", ".conn.host", ".tags[\"k\"]", ".any.k.y", ".any.k.z", ".any.k"})
	case 7:
		return "var." + n + Pick(g, []string{".k", "[0]", `["k"]`})
	case 8:
		return "local." + n + Pick(g, []string{".k", "[0]", `["k"]`, ".k.z"})
	case 9:
		return "module.m." + n
	default:
		return Pick(g, []string{"var.missing", "nothing.here", "aws.zz", "output." + n})
	}
}

func (g G) refExpr(simple bool) string {
	a := g.refAddr(simple)
	if simple {
		return a
	}
	switch g.Weighted(55, 10, 8, 8, 7, 6, 6, 12, 8) {
	case 8:
		// parenthesised, with blanks or a line break around the wrapped expression
		pad := Pick(g, []string{" ", "  ", "\n    ", ""})
		return "(" + pad + a + Pick(g, []string{"", " ", pad}) + ")"
	case 7:
		// a call of a function with typed parameters, written with gaps after the commas
		// and possibly fewer / more arguments than parameters
		fn := Pick(g, []string{"typed3", "nums"})
		n := g.Int(1, 4)
		args := make([]string, n)
		for i := range args {
			args[i] = Pick(g, []string{a, g.refAddr(simple), "true", "1", `["x"]`, "{ k = true }"})
		}
		return fn + "(" + strings.Join(args, Pick(g, []string{",  ", ", ", " ,  "})) + ")"
	case 1:
		return `"pre-${` + a + `}"`
	case 2:
		return "[" + a + ", " + g.refAddr(simple) + "]"
	case 3:
		return "f(" + a + ")"
	case 4:
		return "true ? " + a + " : " + g.refAddr(simple)
	case 5:
		return "{ k = " + a + " }"
	case 6:
		return a + " == " + g.refAddr(simple)
	}
	return a
}

func (g G) refLiteral() string {
	return Pick(g, []string{`"s"`, "1", "true", `["x", "y"]`, `{ k = "v", z = 1 }`, `{ k = { z = true } }`, `[{ k = 1 }]`, "[]", "{}",
		// keys that are no identifiers: blanks, an escaped quote, multi-byte
		`{ "say \"hi\"" = "v" }`, `{ "a b" = "v", k = "w" }`, `{ "é" = "v" }`,
		// more than ten elements: [10] sorts before [2] as text
		`["e0", "e1", "e2", "e3", "e4", "e5", "e6", "e7", "e8", "e9", "e10", "e11"]`})
}

func (g G) refConfig(root m.BodyM, paths []string, pi int, simple bool) string {
	var sb strings.Builder
	type decl func()
	var decls []decl
	nl := "\n"
	decls = append(decls, func() {
		fmt.Fprintf(&sb, "variable %q {%s", Pick(g, refNames), nl)
		if g.Chance(70) {
			fmt.Fprintf(&sb, "  type = %s%s", Pick(g, []string{"string", "number", "bool", "any", "list(string)", "map(string)", "object({k = string})", "tuple([string])"}), nl)
		}
		if g.Chance(40) {
			fmt.Fprintf(&sb, "  default = %s%s", g.refLiteral(), nl)
		}
		sb.WriteString("}" + nl)
	})
	decls = append(decls, func() {
		sb.WriteString("locals {" + nl)
		n := g.Int(1, 3)
		used := map[string]bool{}
		for i := 0; i < n; i++ {
			nm := Pick(g, refNames)
			if used[nm] {
				continue
			}
			used[nm] = true
			if g.Chance(60) {
				fmt.Fprintf(&sb, "  %s = %s%s", nm, g.refLiteral(), nl)
			} else {
				fmt.Fprintf(&sb, "  %s = %s%s", nm, g.refExpr(simple), nl)
			}
		}
		sb.WriteString("}" + nl)
	})
	decls = append(decls, func() {
		typ := Pick(g, append([]string{"other"}, refTypes...))
		fmt.Fprintf(&sb, "resource %q %q {%s", typ, Pick(g, refNames), nl)
		g.inBlockBody = true
		defer func() { g.inBlockBody = false }()
		if !simple && g.Chance(55) {
			fmt.Fprintf(&sb, "  count = %s%s", Pick(g, []string{"2", "var.a"}), nl)
		} else if !simple && g.Chance(30) {
			fmt.Fprintf(&sb, "  for_each = %s%s", Pick(g, []string{`{ k = "v" }`, "var.b"}), nl)
		}
		for _, an := range []string{"name", "size", "tags", "any", "ami", typ + "_id"} {
			if !g.Chance(45) {
				continue
			}
			switch an {
			case "tags":
				if g.Chance(12) {
					// a template made of a single interpolation where a collection is expected
					fmt.Fprintf(&sb, "  tags = \"${%s}\"%s", g.refAddr(simple), nl)
					continue
				}
				// (keys that are no identifiers: their index steps need quoting / escaping when rendered)
				fmt.Fprintf(&sb, "  tags = { %s = %s }%s", Pick(g, []string{"k", "k", `"say \"hi\""`, `"a b"`}), g.refExpr(simple), nl)
			case "size":
				fmt.Fprintf(&sb, "  size = %s%s", Pick(g, []string{"1", g.refExpr(simple)}), nl)
			default:
				if an == "any" && !simple && g.Chance(30) {
					// a literal nested two levels deep, with siblings on the inner level
					fmt.Fprintf(&sb, "  any = { k = { y = 1, z = true }, n = \"s\" }%s", nl)
					continue
				}
				fmt.Fprintf(&sb, "  %s = %s%s", an, Pick(g, []string{`"lit"`, g.refExpr(simple), g.refExpr(simple)}), nl)
			}
		}
		if g.Chance(30) {
			fmt.Fprintf(&sb, "  dep = [%s]%s", Pick(g, refTypes)+"."+Pick(g, refNames), nl)
		}
		if !simple && g.Chance(35) {
			// an object with known attributes; sometimes an item whose key is no literal name follows one
			items := []string{"flag = " + Pick(g, []string{"true", g.refAddr(simple), ""}), "k = " + Pick(g, []string{`"s"`, g.refAddr(simple)})}
			if g.Chance(50) {
				items = append(items, Pick(g, []string{"(var.a)", `"${var.b}"`, "var.a"})+" = "+Pick(g, []string{g.refAddr(simple), "t", ""}))
			}
			if g.Chance(40) {
				items = append(items, "z = "+Pick(g, []string{"1", g.refAddr(simple)}))
			}
			fmt.Fprintf(&sb, "  meta = {%s    %s%s  }%s", nl, strings.Join(items, nl+"    "), nl, nl)
		}
		nd := g.Int(0, 3)
		if nd == 3 {
			nd = 2
		}
		for i := 0; i < nd; i++ {
			fmt.Fprintf(&sb, "  disk {%s    gb = %s%s    path = %s%s  }%s", nl, Pick(g, []string{"10", g.refExpr(simple)}), nl, Pick(g, []string{`"/"`, g.refExpr(simple)}), nl, nl)
			if i == 0 && nd > 1 && g.Chance(60) {
				// blocks of one type need not follow each other
				fmt.Fprintf(&sb, "  note = %s%s", Pick(g, []string{`"n"`, g.refExpr(simple)}), nl)
			}
		}
		if g.Chance(30) {
			fmt.Fprintf(&sb, "  conn {%s    host = %s%s  }%s", nl, Pick(g, []string{"self.name", "self.ami", `"h"`, g.refExpr(simple)}), nl, nl)
		}
		sb.WriteString("}" + nl)
	})
	decls = append(decls, func() {
		fmt.Fprintf(&sb, "data %q {%s  q = %s%s}%s", Pick(g, refNames), nl, Pick(g, []string{`"q"`, g.refExpr(simple)}), nl, nl)
	})
	decls = append(decls, func() {
		fmt.Fprintf(&sb, "output %q {%s", Pick(g, refNames), nl)
		for _, an := range []string{"value", "str", "num", "of", "ofres"} {
			if !g.Chance(50) {
				continue
			}
			switch an {
			case "of":
				fmt.Fprintf(&sb, "  of = var.%s%s", Pick(g, refNames), nl)
			case "ofres":
				fmt.Fprintf(&sb, "  ofres = %s.%s%s", Pick(g, refTypes), Pick(g, refNames), nl)
			case "num":
				fmt.Fprintf(&sb, "  num = %s%s", Pick(g, []string{"1", g.refAddr(simple)}), nl)
			default:
				fmt.Fprintf(&sb, "  %s = %s%s", an, g.refExpr(simple), nl)
			}
		}
		sb.WriteString("}" + nl)
	})
	if _, ok := root.Blocks["module"]; ok {
		decls = append(decls, func() {
			fmt.Fprintf(&sb, "module \"m\" {%s", nl)
			if g.Chance(85) {
				fmt.Fprintf(&sb, "  source = \"./mod\"%s", nl)
			}
			for _, n := range refNames {
				if g.Chance(50) {
					fmt.Fprintf(&sb, "  %s = %s%s", n, g.refExpr(simple), nl)
				}
			}
			sb.WriteString("}" + nl)
		})
	}
	n := g.Int(3, 9)
	for i := 0; i < n; i++ {
		decls[g.Int(0, len(decls)-1)]()
	}
	return sb.String()
}
