package main

import "time"

type propSpec struct {
	Test            string
	Quick           int // rapid cases in the quick tier
	Thorough        int // rapid cases per shard in the thorough tier
	Shards          int
	Race            bool
	QuickTimeout    time.Duration
	ThoroughTimeout time.Duration
	Fuzz            string // native fuzz target (thorough tier only)
	FuzzTime        time.Duration
	Rule            string
	Assumptions     []string
}

var commonAssumptions = []string{
	"schemas are built from the serialisable model by construction and are well formed (DESIGN.md section 3.1): no nil entries, constraints are one of the 12 kinds, AsTypeOf names a declared attribute, TargetableAs only on block bodies",
	"files are exactly what hclsyntax.ParseConfig / json.Parse return for the bytes (parse diagnostics ignored), keyed by the filename given to the parser",
	"cursor positions satisfy 0 <= byte <= len(file) with line/column consistent with the byte offset",
	"collected references in a PathContext are the output of the library's own collectors on the same world",
	"HCL (hclsyntax, json), go-cty and go-textseg are trusted upstream components",
	"held on everything explored: generated-input search never establishes absence",
}

var specs = map[string]propSpec{
	"C01": {
		Test: "TestC01", Quick: 250, Thorough: 2500, Shards: 16,
		QuickTimeout: 10 * time.Minute, ThoroughTimeout: 40 * time.Minute,
		Rule: "rapid generates a world (1-2 paths x 1-2 files, schema from the full schema model, configuration rendered from the schema, 0-2 token-level edits / prefixes / hostile insertions per file) and optionally a typing history (a generated fragment typed character by character at a random offset); every query kind runs under recover at every byte offset (files <= 320 bytes) or at thinned offsets, with and without prefill; evaluations = query calls. A case is non-trivial when at least 5 calls returned data (the schema matched the text) and the file has parse errors or is being typed; distinct = SHA-1 of the case JSON.",
		Assumptions: commonAssumptions,
	},
	"C02": {
		Test: "TestC02", Quick: 250, Thorough: 2500, Shards: 16,
		QuickTimeout: 10 * time.Minute, ThoroughTimeout: 40 * time.Minute,
		Rule: "rapid generates a world as for C01 with layout stress (multi-byte comments/strings/keys, CRLF, blank lines, 0-2 edits); every query runs at every offset (files <= 260 bytes, else thinned) and every hcl.Range reachable from every result (candidates incl. additional edits, hover, tokens, symbol trees, collected targets incl. nested / def / targetable-from ranges, origins, lookup results checked against the files of the reported path, links, diagnostic subject/context) is checked: file belongs to the path, 0 <= start <= end <= len, line/column recomputed independently (newline count + grapheme clusters). evaluations = ranges checked. Exempt: pass-through schema ranges; ranges inside top-level items whose parser AST already carries an inconsistent range (counted as excluded upstream-range). Non-trivial = the case produced at least one computed range (not byte-identical to an AST node or lexer token range); distinct = SHA-1 of the case JSON.",
		Assumptions: commonAssumptions,
	},
}
