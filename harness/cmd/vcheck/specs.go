package main

import "time"

type propSpec struct {
	Test            string
	Quick           int // rapid cases in the quick tier
	Thorough        int // rapid cases per shard in the thorough tier
	Shards          int
	Race            bool
	QuickTimeout    time.Duration
	ThoroughTimeout time.Duration
	Fuzz            string // native fuzz target (thorough tier only)
	FuzzTime        time.Duration
	Rule            string
	Assumptions     []string
}

var commonAssumptions = []string{
	"schemas are built from the serialisable model by construction and are well formed (DESIGN.md section 3.1): no nil entries, constraints are one of the 12 kinds, AsTypeOf names a declared attribute, TargetableAs only on block bodies",
	"files are exactly what hclsyntax.ParseConfig / json.Parse return for the bytes (parse diagnostics ignored), keyed by the filename given to the parser",
	"cursor positions satisfy 0 <= byte <= len(file) with line/column consistent with the byte offset",
	"collected references in a PathContext are the output of the library's own collectors on the same world",
	"HCL (hclsyntax, json), go-cty and go-textseg are trusted upstream components",
	"held on everything explored: generated-input search never establishes absence",
}

var specs = map[string]propSpec{
	"C01": {
		Test: "TestC01", Quick: 250, Thorough: 2500, Shards: 16,
		QuickTimeout: 10 * time.Minute, ThoroughTimeout: 40 * time.Minute,
		Rule: "rapid generates a world (1-2 paths x 1-2 files, schema from the full schema model, configuration rendered from the schema, 0-2 token-level edits / prefixes / hostile insertions per file) and optionally a typing history (a generated fragment typed character by character at a random offset); every query kind runs under recover at every byte offset (files <= 320 bytes) or at thinned offsets, with and without prefill; evaluations = query calls. A case is non-trivial when at least 5 calls returned data (the schema matched the text) and the file has parse errors or is being typed; distinct = SHA-1 of the case JSON.",
		Assumptions: commonAssumptions,
	},
	"C02": {
		Test: "TestC02", Quick: 250, Thorough: 2500, Shards: 16,
		QuickTimeout: 10 * time.Minute, ThoroughTimeout: 40 * time.Minute,
		Rule: "rapid generates a world as for C01 with layout stress (multi-byte comments/strings/keys, CRLF, blank lines, 0-2 edits); every query runs at every offset (files <= 260 bytes, else thinned) and every hcl.Range reachable from every result (candidates incl. additional edits, hover, tokens, symbol trees, collected targets incl. nested / def / targetable-from ranges, origins, lookup results checked against the files of the reported path, links, diagnostic subject/context) is checked: file belongs to the path, 0 <= start <= end <= len, line/column recomputed independently (newline count + grapheme clusters). evaluations = ranges checked. Exempt: pass-through schema ranges; ranges inside top-level items whose parser AST already carries an inconsistent range (counted as excluded upstream-range). Non-trivial = the case produced at least one computed range (not byte-identical to an AST node or lexer token range); distinct = SHA-1 of the case JSON.",
		Assumptions: commonAssumptions,
	},
	"C17": {
		Test: "TestC17", Quick: 4000, Thorough: 40000, Shards: 16,
		QuickTimeout: 10 * time.Minute, ThoroughTimeout: 40 * time.Minute,
		Rule: "rapid draws a type with a Copy method (32 schema/lang types incl. all 12 constraints), a nesting depth 1-4 and a tape of choices; a reflection-driven populator walks the Go struct definitions and fills every field (so fields added later are populated automatically; a field it cannot populate fails the check). Oracle: Copy() does not panic and does not modify the receiver; canonical deep rendering of copy equals that of the original (nil == empty); scrambling every map/slice/pointee reachable from the copy leaves the deep snapshot of the original unchanged, and vice versa (constraints, addresses and cty values exempt as the statement says). Non-trivial = the value holds at least one non-empty map/slice; distinct = SHA-1 of (type, depth, tape).",
		Assumptions: []string{"constraints, schema.Address, lang.Address and cty types/values are immutable by convention and may be shared (property statement)", "held on everything explored"},
	},
	"C03": {
		Test: "TestC03", Quick: 150, Thorough: 2000, Shards: 16,
		QuickTimeout: 10 * time.Minute, ThoroughTimeout: 40 * time.Minute,
		Rule: "rapid generates a world with wide bodies (13-40 attributes / blocks / functions, 60% of attributes addressable so same-address targets occur), 1-2 paths x 1-3 files, a list of 6-12 positional/file queries plus all whole-path queries (collect targets/origins, validate, workspace symbols, tokens, symbols) and a history of 0-10 other queries. Metamorphic oracle: the canonical rendering of every query result (order sensitive; diagnostics as multiset) must be equal across 5 repetitions on the same decoder, after the history, and on 3 freshly built worlds (schema rebuilt, files re-parsed, references re-collected); evaluations = comparisons. Non-trivial = some compared result is a collection with >= 2 elements (class wide when >= 13, where sort.Sort stops being stable); distinct = SHA-1 of the case JSON.",
		Assumptions: commonAssumptions,
	},
	"C04": {
		Test: "TestC04", Quick: 250, Thorough: 2500, Shards: 16,
		QuickTimeout: 10 * time.Minute, ThoroughTimeout: 40 * time.Minute,
		Rule: "rapid generates a world (1-2 paths, possibly one unreadable, schemas with dependent bodies / nested blocks / count, for_each, dynamic and self-ref extensions / completion hooks) and a history of 8-30 queries of every kind at token-boundary-biased positions, including queries that return errors (unknown file, position out of range, unreadable path). Oracle: a deep snapshot (reflection incl. unexported fields, slices up to capacity, sorted maps, pointer graph) of every PathContext and the DecoderContext taken before the history must be byte-identical after every step; evaluations = steps compared. Non-trivial = the schema has a dependent body or extension (derived schemas are built) and at least one query returned an error; distinct = SHA-1 of the case JSON.",
		Assumptions: commonAssumptions,
	},
	"C05": {
		Test: "TestC05", Quick: 60, Thorough: 400, Shards: 8, Race: true,
		QuickTimeout: 10 * time.Minute, ThoroughTimeout: 45 * time.Minute,
		Rule: "rapid generates a world (as for C04) and 45-190 query descriptors in which a few queries are repeated many times so that goroutines meet on the same blocks and file bytes; the queries run once sequentially (reference results) and then on 4-32 goroutines pulling from the same list, sharing one PathReader / PathContext / schema and either one Decoder or one Decoder per goroutine. The test binary is built with -race (GORACE=halt_on_error=1): any race report is a violation (the report plus the running case is the replay artefact); every concurrent result must equal the sequential one (canonical rendering) and the deep snapshot of all caller-supplied data must be unchanged; evaluations = results compared. Non-trivial = schema with dependent bodies / extensions and >= 4 goroutines; distinct = SHA-1 of the case JSON. The harness does not own the scheduler: only interleavings that actually happen are observed.",
		Assumptions: append([]string{"stress exploration under the Go race detector: precise for the executions observed, silent about the others"}, commonAssumptions...),
	},
	"C06": {
		Test: "TestC06", Quick: 300, Thorough: 2000, Shards: 16,
		QuickTimeout: 10 * time.Minute, ThoroughTimeout: 40 * time.Minute,
		Rule: "rapid generates a world (one path, 1-2 files, layout stress, half-typed values, 0-2 edits; 25% of cases with candidate populations of 95-130 attributes / blocks / dependent-body labels) and runs completion with and without required-field prefilling at every character boundary. Validity predicate per candidate: edit is for the requested file, range well formed, starts at or before the cursor, reaches the cursor up to blanks; plain text free of tab-stop syntax; snippet tab stops (stop 0 aside) consecutive and used once. Per list: at most 100 entries; a list marked complete whose attribute has a registered, runnable hook is a violation; a list at the limit marked complete is probed metamorphically (type one more character from [a-z0-9_]: every candidate offered then must already be in the complete list). evaluations = candidates checked. Non-trivial = some non-empty list was produced with a typed prefix or a list reached the limit; distinct = SHA-1 of the case JSON.",
		Assumptions: append([]string{"hook-provided insert text is caller content and is not snippet-checked", "ranges inside top-level items whose parser AST is inconsistent are attributed upstream (counted)"}, commonAssumptions...),
	},
	"C20": {
		Test: "TestC20", Quick: 3000, Thorough: 30000, Shards: 16,
		QuickTimeout: 10 * time.Minute, ThoroughTimeout: 40 * time.Minute,
		Rule: "rapid generates a function table (6 functions, 0-3 fixed parameters, optional variadic, one parameterless) and call trees of depth 1-3 whose arguments are literals (incl. strings containing commas and parentheses), references, collections, nested known/unknown calls wrapped in parentheses, templates, operators, conditionals, lists and objects, with too few / too many arguments, trailing commas, empty slots, blanks and newlines; 35% of cases are truncated to a prefix (half-typed). The generator records for every call its parentheses and own commas (annotation = reference model). SignatureAtPos runs at every character boundary. Soundness on all inputs: a returned signature must be of a known function enclosing the cursor, its parameters = fixed ++ variadic, active index valid; on parse-clean text it must be the innermost enclosing known call and the active index = commas to the left of the cursor clamped to the variadic parameter, none when the slot exceeds the parameters. Completeness (a signature must be returned) only on parse-clean text with the cursor strictly inside the parentheses. evaluations = positions checked. Non-trivial = a known call with >= 2 argument slots or nesting >= 2; distinct = SHA-1 of the case JSON.",
		Assumptions: append([]string{"don't-care: cursor exactly at the opening parenthesis; calls with an empty argument slot (f(a, , b)), where the parser's recovery decides"}, commonAssumptions...),
	},
	"C18": {
		Test: "TestC18", Quick: 200, Thorough: 2000, Shards: 16,
		QuickTimeout: 10 * time.Minute, ThoroughTimeout: 40 * time.Minute,
		Rule: "rapid generates a world (1-2 paths x 1-2 files, layout stress, occasional edits), an insertion point at a line start outside every top-level item (or EOF after a trailing newline; offset 0 excluded because the root body's own start does not move) and 1-5 inserted lines (blank, '#', '//', '/* */', multi-byte comment text, CRLF when the file uses it). Precondition checked on the parser: the translated file's top-level AST equals the shifted AST of the original (otherwise the case is counted as excluded). Metamorphic oracle: for every query kind at every cursor (<= 150 boundaries per file) result(original, p) with all ranges of the edited file shifted by the inserted lines/bytes == result(translated, shift(p)) in canonical form (references re-collected in the translated world; errors compared by type). evaluations = comparisons. Non-trivial = insertion before an item and some compared result non-empty; distinct = SHA-1 of the case JSON.",
		Assumptions: commonAssumptions,
	},
	"C14": {
		Test: "TestC14", Quick: 1500, Thorough: 10000, Shards: 16,
		QuickTimeout: 10 * time.Minute, ThoroughTimeout: 40 * time.Minute,
		Rule: "rapid generates a world of 1-3 paths (35% without schema, some unreadable) x 1-3 native files with nested blocks, tuple/object literals with naked / quoted / interpolated / parenthesised keys, layout stress and occasional edits, plus query strings (empty, substrings of written names, misses). Reference model built from the parser's AST by the harness: attributes and blocks in source order, name = attribute name / type + quoted labels, range = item extent, recursion into block bodies, tuple elements and literally string-keyed object items. SymbolsInFile must equal the model node by node (kind, name, range, children) and every child range must lie inside its parent; Decoder.Symbols(q) must equal the concatenation, over readable paths in Paths() order and files in name order, of the top-level model symbols whose name contains q, each tagged with its path. evaluations = files + queries compared. Non-trivial = outline depth >= 2, or an unreadable path present, or a query with both hits and misses; distinct = SHA-1 of the case JSON.",
		Assumptions: append([]string{"JSON files are covered by C19, not here (the outline of a JSON file depends on the schema)"}, commonAssumptions...),
	},
	"C15": {
		Test: "TestC15", Quick: 2000, Thorough: 15000, Shards: 16,
		QuickTimeout: 10 * time.Minute, ThoroughTimeout: 40 * time.Minute,
		Rule: "rapid generates a schema (nesting depth <= 3, required/optional/computed/deprecated attributes, any-attribute bodies, labels, min/max items, dependent bodies keyed by labels / attribute values / defaults / references incl. a second level, extensions) and a configuration rendered from it with ~18% injected violations per opportunity at any depth (unknown attributes and blocks, missing / surplus labels, missing required attributes, too many / too few blocks, deprecated items, dependent-body keys that select nothing). Reference model (written from the statement, over the model schema and the parser's AST; effective schema = static body overlaid with the selected dependent body): expected multiset of (severity, summary, subject range); compared with ValidateFile, and Validate() per file with ValidateFile. Regions the statement does not decide (dynamic blocks, null/unknown key values, ambiguous two-level keys) are excluded from both sides and counted. evaluations = files compared. Non-trivial = at least two kinds of expected diagnostics or a selected dependent body plus a diagnostic; distinct = SHA-1 of the case JSON.",
		Assumptions: commonAssumptions,
	},
	"C13": {
		Test: "TestC13", Quick: 1500, Thorough: 10000, Shards: 16,
		QuickTimeout: 10 * time.Minute, ThoroughTimeout: 40 * time.Minute,
		Rule: "rapid generates a schema (nesting <= 3, token modifiers on blocks / labels / attributes, dependent bodies, extensions) and 1-2 files rendered from it with unknown attributes / blocks, surplus labels, references, functions, literals of every type, layout stress, half-typed values and (40% of cases) token-level edits. On every file: tokens sorted by start, pairwise non-overlapping, non-empty, of advertised types, identical on repetition. On the model side (effective schema from the serialisable model + parser AST): the attribute-name / block-type / label tokens must be exactly the schema-known elements with modifiers = element's + all enclosing blocks'; no token at all inside unknown attributes, unknown blocks or surplus labels; every other token lies inside the value of a schema-known attribute; plain bool/number/string literals under a matching literal-type / any-expression constraint carry exactly the literal token. evaluations = files. Non-trivial = at least one token inside a value; distinct = SHA-1 of the case JSON.",
		Assumptions: append([]string{"value-level exactness is decided for plain literals only; reference-step and function-name tokens are bounded (inside known values) here and decided by C11 / C08", "declared attribute named count/for_each in a body that also enables the extension: don't care"}, commonAssumptions...),
	},
	"C12": {
		Test: "TestC12", Quick: 300, Thorough: 3000, Shards: 16,
		QuickTimeout: 10 * time.Minute, ThoroughTimeout: 40 * time.Minute,
		Rule: "rapid generates a schema (nesting <= 3, descriptions on attributes / blocks / labels / dependent bodies, dependent bodies boosted, extensions) and 1-2 files rendered from it (layout stress, half-typed values, 45% with token-level edits); HoverAtPos runs at every character boundary (<= 400 per file). Always: a result is an error, nothing, or non-empty content with a valid range (C02 rules) that contains the cursor. With the model (effective schema from the serialisable model + parser AST, cursor classified by the harness): on a known attribute name -> content starts with **name**, carries the effective schema's description, range = whole attribute; on a known block type -> **type**, description, range = type keyword; on a label within the schema's labels -> content names the label value, carries the selected dependent body's description (else the label's), range = the label; on unknown attributes / blocks / surplus labels -> nothing; inside a value -> the range lies inside the value. evaluations = positions. Non-trivial = at least one hover returned data; distinct = SHA-1 of the case JSON.",
		Assumptions: append([]string{"value-level content (which sub-expression is described) is only bounded by range containment, not compared with a model", "dynamic blocks and declared-vs-extension attribute clashes: don't care"}, commonAssumptions...),
	},
	"C07": {
		Test: "TestC07", Quick: 1000, Thorough: 6000, Shards: 16,
		QuickTimeout: 10 * time.Minute, ThoroughTimeout: 40 * time.Minute,
		Rule: "rapid generates a schema (nesting <= 3; dependent bodies keyed by labels, attribute values, defaults, references and a second level, boosted; any-attribute bodies; extensions; attribute/block name clashes; min/max items; computed-only attributes) and a file rendered from it with ~10% violations, into which blank lines and half-typed names are sprinkled; 40% of cases get a token-level edit. The harness classifies every character boundary on the parser AST (inside an attribute name, a block type, a label, on a blank line, at a half-typed name alone on its line) and computes the typed prefix from the text. Reference model on the serialisable schema: effective schema = static body overlaid with the dependent body selected by the harness's own key computation; expected candidates = attributes (not declared, not read-only) + count/for_each (extension on, not declared) + block types (below max items, attribute wins a clash) with the prefix, sorted, duplicate free; in a completable label the distinct dependent-body label values with the prefix; nothing in a non-completable label. Compared as ordered lists with CompletionAtPos. Acceptance: up to 6 candidates per case are applied (snippet expanded), the file re-parsed and ValidateFile must not report more unexpected/too-many diagnostics than before. evaluations = cursors compared. Non-trivial = at least two cursor classes exercised; distinct = SHA-1 of the case JSON.",
		Assumptions: append([]string{"don't care: the `name` placeholder of any-attribute bodies; `dynamic` where the dynamic-blocks extension is in force; regions with undetermined dependent-body selection; lists above the limit (C06)"}, commonAssumptions...),
	},
	"C16": {
		Test: "TestC16", Quick: 3000, Thorough: 30000, Shards: 16,
		QuickTimeout: 10 * time.Minute, ThoroughTimeout: 40 * time.Minute,
		Rule: "rapid constructs (a) two dependency key sets (0-3 label keys, 0-4 attribute keys with string / number / bool values or traversal addresses) and a permutation: NewSchemaKey of the permuted listing must equal the original's, and two sets share a key exactly when they are the same set by the harness's own canonical form; (b) a block type with 0-2 key labels, 0-3 key attributes (some with defaults) and 1-4 dependent bodies registered under distinct key sets listed in permuted order, each with a marker attribute (own description, token modifier, address, reference value) and optionally a docs link, plus one block instance written to select one of them (key attributes in permuted order, literals / traversals / defaults) or none. The dependent body in force is computed by the harness's reference model and cross-checked against the construction; then every feature must see exactly that body: hover and semantic token (with modifier) on the marker, validation (markers of other bodies unexpected; nothing unexpected when the lookup fails), collected target and origin of the marker, no completion of declared markers, and LinksInFile exactly on the labels / written attribute values that formed the key of a body having a link. evaluations = feature comparisons. Non-trivial = a body selected through >= 2 keys or a key set of size >= 2; distinct = SHA-1 of the case JSON.",
		Assumptions: append([]string{"second-level (two-step) selection is exercised by C07/C12/C13/C15 through the general generator, not by this constructed scenario"}, commonAssumptions...),
	},
	"C10": {
		Test: "TestC10", Quick: 2000, Thorough: 12000, Shards: 16,
		QuickTimeout: 10 * time.Minute, ThoroughTimeout: 40 * time.Minute,
		Rule: "rapid generates a schema (all 12 constraint kinds nested to depth 2, static / dependent / extension bodies, self-ref and non-self-ref bodies, OriginForTarget and Targets) and 1-2 files whose values are type-correct, reference-heavy expressions: traversals (attr, index with literal and traversal keys, legacy index, splats, relative traversals after calls) wrapped in operators, templates, directives, heredocs, conditionals, for expressions, index expressions, parentheses, collections and calls of known / unknown functions with too few / too many arguments, plus unknown attributes and blocks. Reference model: for every schema-known attribute of the effective schema, a place admits references when its constraint is any-expression (all traversals HCL's own Variables() finds there), reference (a plain traversal), or a list / set / tuple / map / object / one-of thereof (structural descent); self.* only where the body enables it; literal / keyword / type-declaration places and unknown attributes admit none. Collected LocalOrigins must equal the model as a set of (address, byte range) and be ordered by file and position; one PathOrigin per OriginForTarget attribute; one DirectOrigin per key attribute of a body with Targets. evaluations = expected origins. Non-trivial = at least two expression/placement classes present; distinct = SHA-1 of the case JSON.",
		Assumptions: append([]string{"don't care (statement silent): traversals inside for expressions (iterator variables), arguments of unknown or parameterless functions, surplus arguments, object/map key expressions, dynamic blocks, undetermined dependent-body selection"}, commonAssumptions...),
	},
	"C09": {
		Test: "TestC09", Quick: 1500, Thorough: 10000, Shards: 16,
		QuickTimeout: 10 * time.Minute, ThoroughTimeout: 40 * time.Minute,
		Rule: "rapid generates a schema (nesting <= 3, 60% of attributes addressable (as reference / as expression type; static + attribute-name steps), blocks addressable by static / label / attribute-value steps with every flag combination the schema validator accepts: as reference, as type of an attribute, body-as-data +- infer +- self-ref, dependent-body-as-data +- infer +- self-ref, unknown nested refs; targetable-as; any-attribute bodies; dependent bodies boosted) and 1-2 files rendered from it (typed expressions, missing / surplus labels, unknown items). Reference model on the serialisable schema + parser AST: for every addressable block / attribute of the effective schema one expected target per flag with address from the declared steps, scope, range = item extent, definition range = header / name, and the type where the model determines it (type-less; type declaration; object type of the static or selected dependent body, wrapped per block type; dynamic; literal type) plus count.index / each.key / each.value for declared extension attributes. Completeness: each expected target is collected. Soundness: each collected top-level target has the extent of an addressable declaration (or a targetable-as block, an extension attribute, a self-addressing reference) and that declaration's address; nothing is collected inside unknown attributes / blocks. Structure: nested address = parent + one step, list indexes 0..n-1 in source order, elements of a written attribute value inside the value's range. evaluations = targets compared. Non-trivial = at least two addressing classes present; distinct = SHA-1 of the case JSON.",
		Assumptions: append([]string{"don't care: type of a block with both body-as-data and dependent-body-as-data when a dependent body is selected (DESIGN D22); types of as-expression-type attributes other than plain literals; range of aggregate list/set/map block targets; dynamic blocks"}, commonAssumptions...),
	},
	"C11": {
		Test: "TestC11", Quick: 1500, Thorough: 10000, Shards: 16,
		QuickTimeout: 10 * time.Minute, ThoroughTimeout: 40 * time.Minute,
		Rule: "rapid generates a Terraform-like world of 1-2 paths (variables typed by a type declaration and optionally type-less, locals addressable by expression type with nested list/map/object elements, resources with body-as-data / dependent-body-as-data / self references / count / for_each / nested blocks, dynamic-typed data blocks, outputs, modules whose inputs are path origins into the other path, implied origins, a direct origin on the module source) and configurations that reference exact, nested, missing, block-local (count.index, each.*, self.*) and cross-path addresses inside plain values, templates, lists, objects, calls, conditionals and operators; names come from pools of 3 so that references resolve. For every collected origin (cursor at its start, middle and end): go-to-definition must be sound (each reported declaration is a collected declaration of the path the origin points to, whose address equals the origin's - or is a prefix of it for dynamic-typed declarations - or whose local address equals it with the origin inside the declaring block, and which satisfies one scope/type constraint), complete (every collected declaration with exactly the origin's address that satisfies a constraint is reported), and inverse (find-references at each reported definition reports the origin). evaluations = lookups. Non-trivial = at least one origin resolved; distinct = SHA-1 of the case JSON.",
		Assumptions: append([]string{"the sets of targets and origins are the library's own collectors' output on the generated world (the property quantifies over collected sets); resolution is judged by an independent matching predicate written from the statement"}, commonAssumptions...),
	},
	"C19": {
		Test: "TestC19", Quick: 2000, Thorough: 15000, Shards: 16,
		QuickTimeout: 10 * time.Minute, ThoroughTimeout: 40 * time.Minute,
		Rule: "rapid generates a Terraform-like schema (variables, any-attribute locals addressable by expression type, resources with body-as-data / dependent bodies / nested blocks, dynamic-typed data blocks, outputs with reference / any-expression / one-of constraints) and one structured configuration (blocks with labels, literals of all primitive types, lists, objects, references written as ${...} templates and as legacy bare strings) which is rendered twice: native syntax and HCL JSON syntax. Differential oracle between the two worlds: absolute reference targets as a multiset of (address, type, scope, nesting depth) over the whole tree; reference origins as a multiset of addresses, each JSON origin's constraints being the native ones or the documented any-type fallback; block/attribute symbol outline (names, nesting) via the workspace query. Ranges and block-local targets are ignored as the statement says. evaluations = elements compared. Non-trivial = at least one reference and one nested target; distinct = SHA-1 of the case JSON.",
		Assumptions: commonAssumptions,
	},
}
