// vcheck is the driver behind /verif/check: it rebuilds the property test
// binary against /repo's current working tree, replays stored cases, runs the
// rapid search (sharded in the thorough tier), optional native fuzz campaigns,
// aggregates per-case statistics into the evidence file and maps outcomes to
// exit codes: 0 held, 1 violation (with a VIOLATION line), 2 inconclusive.
package main

import (
	"bytes"
	"crypto/sha1"
	"encoding/json"
	"fmt"
	"os"
	"os/exec"
	"path/filepath"
	"regexp"
	"sort"
	"strconv"
	"strings"
	"sync"
	"time"
)

type finding struct {
	Property string `json:"property"`
	Kind     string `json:"kind"`
	Sig      string `json:"sig,omitempty"`
	What     string `json:"what"`
	Case     string `json:"case,omitempty"`
	Commit   string `json:"commit,omitempty"`
}

type propStats struct {
	Evaluations   int            `json:"evaluations"`
	Cases         int            `json:"cases"`
	NonTrivial    []uint64       `json:"nontrivial_hashes"`
	Classes       map[string]int `json:"classes"`
	Excluded      map[string]int `json:"excluded"`
	ExcludedKnown int            `json:"excluded_known"`
	Samples       []interface{}  `json:"samples"`
}

var (
	root    string
	outRoot string // where evidence and found replays are written (== root unless VERIF_REPO is set)
	harness string
	goEnv   []string
)

func fatal2(format string, args ...interface{}) {
	fmt.Printf("INCONCLUSIVE: "+format+"\n", args...)
	os.Exit(2)
}

func main() {
	if len(os.Args) < 3 {
		fmt.Println("usage: vcheck <property> quick|thorough | vcheck <property> --replay <file>")
		os.Exit(2)
	}
	exe, err := os.Executable()
	if err != nil {
		fatal2("cannot locate executable: %s", err)
	}
	root = os.Getenv("VERIF_ROOT")
	if root == "" {
		root = filepath.Dir(filepath.Dir(exe))
	}
	harness = filepath.Join(root, "harness")
	outRoot = root
	if alt := os.Getenv("VERIF_REPO"); alt != "" {
		// trial run against another checkout: nothing it finds is written into /verif
		outRoot = filepath.Join(os.TempDir(), "verif-alt-out")
		if o := os.Getenv("VERIF_OUT"); o != "" {
			outRoot = o
		}
	}
	goEnv = append(os.Environ(), "GOFLAGS=-mod=mod", "GOPROXY=off", "GOSUMDB=off", "GOTOOLCHAIN=local", "CGO_ENABLED=1")

	id := os.Args[1]
	spec, ok := specs[id]
	if !ok {
		fatal2("unknown property %s", id)
	}
	if os.Args[2] == "--replay" {
		if len(os.Args) < 4 {
			fatal2("--replay needs a file")
		}
		os.Exit(replayMain(id, spec, os.Args[3]))
	}
	tier := os.Args[2]
	if tier != "quick" && tier != "thorough" {
		fatal2("unknown tier %q", tier)
	}
	os.Exit(checkMain(id, spec, tier))
}

func seed() int {
	s, err := strconv.Atoi(os.Getenv("VERIF_SEED"))
	if err != nil || s == 0 {
		return 1 // rapid treats 0 as "random"
	}
	if s < 0 {
		s = -s
	}
	return s
}

// build compiles the props test binary against /repo's current tree.
func build(race bool, tmp string) string {
	out := filepath.Join(tmp, "props.test")
	args := []string{"test", "-c", "-tags", "verif", "-vet=off", "-o", out}
	if race {
		args = append(args, "-race")
	}
	args = append(args, altModArgs(tmp)...)
	args = append(args, "./props")
	cmd := exec.Command("go", args...)
	cmd.Dir = harness
	cmd.Env = goEnv
	b, err := cmd.CombinedOutput()
	if err != nil {
		fmt.Println(string(b))
		fatal2("building the property tests against /repo failed: %s", err)
	}
	return out
}

// altModArgs: VERIF_REPO points the build at another checkout of the library
// (used to try seeded changes in a scratch worktree without touching /repo); the
// registered commands never set it.
func altModArgs(tmp string) []string {
	alt := os.Getenv("VERIF_REPO")
	if alt == "" {
		return nil
	}
	gm, err := os.ReadFile(filepath.Join(harness, "go.mod"))
	if err != nil {
		fatal2("cannot read go.mod: %s", err)
	}
	altMod := filepath.Join(tmp, "go.alt.mod")
	_ = os.WriteFile(altMod, []byte(strings.Replace(string(gm), "=> /repo", "=> "+alt, 1)), 0o644)
	if gs, err := os.ReadFile(filepath.Join(harness, "go.sum")); err == nil {
		_ = os.WriteFile(filepath.Join(tmp, "go.alt.sum"), gs, 0o644)
	}
	return []string{"-modfile=" + altMod}
}

type runOut struct {
	output   string
	exitErr  error
	passed   int
	failCase string
	stats    string
	timedOut bool
	lastCase string
}

var passedRe = regexp.MustCompile(`OK, passed (\d+) tests`)

func runTest(bin, tmp, tag, testName string, checks, seed int, timeout time.Duration, extraEnv []string) runOut {
	stats := filepath.Join(tmp, "stats-"+tag+".json")
	fail := filepath.Join(tmp, "fail-"+tag+".json")
	args := []string{"-test.run", "^" + testName + "$", "-test.v", "-test.timeout", timeout.String(),
		"-rapid.checks", strconv.Itoa(checks), "-rapid.seed", strconv.Itoa(seed), "-rapid.nofailfile", "-rapid.shrinktime", "45s"}
	cmd := exec.Command(bin, args...)
	cmd.Dir = filepath.Join(harness, "props")
	cmd.Env = append(append([]string{}, goEnv...), "VERIF_STATS="+stats, "VERIF_FAILCASE="+fail,
		"VERIF_KNOWN="+filepath.Join(root, "known_findings.json"), "VERIF_ROOT="+root)
	cmd.Env = append(cmd.Env, extraEnv...)
	last := filepath.Join(tmp, "last-"+tag+".json")
	cmd.Env = append(cmd.Env, "VERIF_LASTCASE="+last, "GORACE=halt_on_error=1")
	var buf bytes.Buffer
	cmd.Stdout = &buf
	cmd.Stderr = &buf
	err := cmd.Run()
	ro := runOut{output: buf.String(), exitErr: err, stats: stats, lastCase: last}
	if m := passedRe.FindStringSubmatch(ro.output); m != nil {
		ro.passed, _ = strconv.Atoi(m[1])
	}
	if _, e := os.Stat(fail); e == nil {
		ro.failCase = fail
	}
	if strings.Contains(ro.output, "panic: test timed out") {
		ro.timedOut = true
	}
	return ro
}

func loadFindings() []finding {
	b, err := os.ReadFile(filepath.Join(root, "known_findings.json"))
	if err != nil {
		return nil
	}
	var ff struct {
		Findings []finding `json:"findings"`
	}
	if json.Unmarshal(b, &ff) != nil {
		return nil
	}
	return ff.Findings
}

var replaySigRe = regexp.MustCompile(`REPLAY-FAILURE property=(\S+) sig=(.*)`)

func runReplay(bin, tmp, id, file string) (failed bool, sigs []string, out string, harnessBug bool) {
	cmd := exec.Command(bin, "-test.run", "^TestReplay_"+id+"$", "-test.v", "-test.timeout", "300s")
	cmd.Dir = filepath.Join(harness, "props")
	abs := file
	if !filepath.IsAbs(abs) {
		abs = filepath.Join(root, file)
	}
	cmd.Env = append(append([]string{}, goEnv...), "VERIF_REPLAY="+abs, "VERIF_ROOT="+root,
		"VERIF_KNOWN="+filepath.Join(root, "known_findings.json"), "GORACE=halt_on_error=1")
	b, err := cmd.CombinedOutput()
	out = string(b)
	for _, m := range replaySigRe.FindAllStringSubmatch(out, -1) {
		sigs = append(sigs, strings.TrimSpace(m[2]))
	}
	if strings.Contains(out, "HARNESS-BUG") {
		return false, nil, out, true
	}
	if strings.Contains(out, "WARNING: DATA RACE") {
		sig := "race"
		if m := raceFrameRe.FindStringSubmatch(out); m != nil {
			sig = "race:" + strings.TrimPrefix(m[1], "github.com/hashicorp/hcl-lang/")
		}
		return true, append(sigs, sig), out, false
	}
	return err != nil, sigs, out, false
}

func replayMain(id string, spec propSpec, file string) int {
	tmp, err := os.MkdirTemp("", "vcheck-")
	if err != nil {
		fatal2("tmp dir: %s", err)
	}
	defer os.RemoveAll(tmp)
	bin := build(spec.Race, tmp)
	failed, sigs, out, bug := runReplay(bin, tmp, id, file)
	fmt.Println(out)
	if bug {
		return 2
	}
	if failed {
		if len(sigs) == 0 {
			fmt.Println("INCONCLUSIVE: replay failed without a property failure")
			return 2
		}
		fmt.Printf("VIOLATION property=%s replay=%s\n", id, file)
		return 1
	}
	fmt.Printf("replay of %s: property %s holds on this case\n", file, id)
	return 0
}

func checkMain(id string, spec propSpec, tier string) int {
	start := time.Now()
	sd := seed()
	tmp, err := os.MkdirTemp("", "vcheck-")
	if err != nil {
		fatal2("tmp dir: %s", err)
	}
	defer os.RemoveAll(tmp)
	bin := build(spec.Race, tmp)

	violations := 0
	var violationLines []string
	notes := []string{}

	// 1. known findings: replay the stored case; print KNOWN-FINDING if it still fails as listed
	knownCases := map[string]bool{}
	staleKnown := 0
	for _, f := range loadFindings() {
		if f.Property != id || f.Kind != "known" {
			continue
		}
		if f.Case == "" {
			fmt.Printf("KNOWN-FINDING: property=%s %s\n", id, f.What)
			continue
		}
		knownCases[filepath.Base(f.Case)] = true
		failed, sigs, out, bug := runReplay(bin, tmp, id, f.Case)
		if bug {
			fmt.Println(out)
			fatal2("harness bug while replaying known finding %s", f.Case)
		}
		still := false
		for _, s := range sigs {
			if s == f.Sig {
				still = true
			}
		}
		if failed && still {
			fmt.Printf("KNOWN-FINDING: property=%s %s\n", id, f.What)
		} else {
			staleKnown++
			notes = append(notes, "known finding no longer reproduces: "+f.What)
		}
		// a listed case that now fails in a different, unlisted way is a new violation
		if failed {
			for _, s := range sigs {
				if s != f.Sig && !sigListed(id, s) {
					violations++
					violationLines = append(violationLines, fmt.Sprintf("VIOLATION property=%s replay=%s", id, f.Case))
				}
			}
		}
	}

	// 2. regression replays (saved shrunk failures and hand-picked cases)
	replays, _ := filepath.Glob(filepath.Join(root, "replays", id, "*.json"))
	sort.Strings(replays)
	replayed := 0
	for _, rp := range replays {
		if knownCases[filepath.Base(rp)] {
			continue
		}
		failed, sigs, out, bug := runReplay(bin, tmp, id, rp)
		if bug {
			fmt.Println(out)
			fatal2("harness bug while replaying %s", rp)
		}
		replayed++
		if failed {
			unlisted := false
			for _, s := range sigs {
				if !sigListed(id, s) {
					unlisted = true
				}
			}
			if unlisted || len(sigs) == 0 {
				fmt.Println(tail(out, 60))
				violations++
				rel, _ := filepath.Rel(root, rp)
				violationLines = append(violationLines, fmt.Sprintf("VIOLATION property=%s replay=%s", id, rel))
			}
		}
	}

	// 3. rapid search
	shards := 1
	checks := spec.Quick
	timeout := spec.QuickTimeout
	if tier == "thorough" {
		shards = spec.Shards
		checks = spec.Thorough
		timeout = spec.ThoroughTimeout
	}
	if timeout == 0 {
		timeout = 20 * time.Minute
	}
	outs := make([]runOut, shards)
	var wg sync.WaitGroup
	for i := 0; i < shards; i++ {
		wg.Add(1)
		go func(i int) {
			defer wg.Done()
			s := sd
			if shards > 1 {
				s = sd*1000 + i + 1
			}
			outs[i] = runTest(bin, tmp, fmt.Sprintf("s%d", i), spec.Test, checks, s, timeout,
				[]string{"VERIF_TIER=" + tier, "VERIF_SHARD=" + strconv.Itoa(i)})
		}(i)
	}
	wg.Wait()

	inconclusive := ""
	passedTotal := 0
	for i, o := range outs {
		passedTotal += o.passed
		if o.exitErr == nil {
			if o.passed < checks {
				inconclusive = fmt.Sprintf("shard %d passed only %d of %d requested cases", i, o.passed, checks)
			}
			continue
		}
		switch {
		case o.failCase != "":
			dst := saveFailCase(id, o.failCase)
			fmt.Println(tail(o.output, 80))
			violations++
			violationLines = append(violationLines, fmt.Sprintf("VIOLATION property=%s replay=%s", id, dst))
		case spec.Race && strings.Contains(o.output, "DATA RACE"):
			dst := saveRace(id, o.lastCase, o.output)
			fmt.Println(tail(o.output, 120))
			violations++
			violationLines = append(violationLines, fmt.Sprintf("VIOLATION property=%s replay=%s", id, dst))
		case strings.Contains(o.output, "fatal error: concurrent map"):
			dst := saveText(id, "fatal", o.output)
			fmt.Println(tail(o.output, 120))
			violations++
			violationLines = append(violationLines, fmt.Sprintf("VIOLATION property=%s replay=%s", id, dst))
		case o.timedOut:
			fmt.Println(tail(o.output, 40))
			inconclusive = fmt.Sprintf("shard %d hit the time limit %s", i, timeout)
		default:
			fmt.Println(tail(o.output, 80))
			inconclusive = fmt.Sprintf("shard %d failed without a property violation (harness problem or resource limit): %v", i, o.exitErr)
		}
	}

	// 4. native fuzz campaign (thorough tier of the robustness properties)
	fuzzInfo := map[string]interface{}{}
	if tier == "thorough" && spec.Fuzz != "" && violations == 0 {
		fv, info, inc := runFuzz(id, spec, tmp)
		fuzzInfo = info
		if fv != "" {
			violations++
			violationLines = append(violationLines, fv)
		}
		if inc != "" && inconclusive == "" {
			notes = append(notes, "fuzz: "+inc)
		}
	}

	// 5. evidence
	agg := propStats{Classes: map[string]int{}, Excluded: map[string]int{}}
	nt := map[uint64]bool{}
	for _, o := range outs {
		b, err := os.ReadFile(o.stats)
		if err != nil {
			continue
		}
		var all map[string]*propStats
		if json.Unmarshal(b, &all) != nil {
			continue
		}
		s := all[id]
		if s == nil {
			continue
		}
		agg.Evaluations += s.Evaluations
		agg.Cases += s.Cases
		agg.ExcludedKnown += s.ExcludedKnown
		for k, v := range s.Classes {
			agg.Classes[k] += v
		}
		for k, v := range s.Excluded {
			agg.Excluded[k] += v
		}
		for _, h := range s.NonTrivial {
			nt[h] = true
		}
		if len(agg.Samples) < 6 {
			agg.Samples = append(agg.Samples, s.Samples...)
		}
	}
	if len(agg.Samples) > 6 {
		agg.Samples = agg.Samples[:6]
	}
	cov := map[string]interface{}{
		"evaluations":         agg.Evaluations,
		"cases_generated":     agg.Cases,
		"distinct_nontrivial": len(nt),
		"rule":                spec.Rule,
		"samples":             agg.Samples,
		"classes":             agg.Classes,
		"excluded":            agg.Excluded,
		"excluded_known":      agg.ExcludedKnown,
		"requested_cases":     checks * shards,
		"passed_cases":        passedTotal,
		"shards":              shards,
		"replayed_cases":      replayed,
		"stale_known":         staleKnown,
	}
	if len(fuzzInfo) > 0 {
		cov["fuzz"] = fuzzInfo
	}
	if len(notes) > 0 {
		cov["notes"] = notes
	}
	if inconclusive != "" {
		cov["inconclusive"] = inconclusive
	}
	ev := map[string]interface{}{
		"property_id": id,
		"tier":        tier,
		"seed":        sd,
		"level":       "exploration",
		"coverage":    cov,
		"assumptions": spec.Assumptions,
		"wall_s":      time.Since(start).Seconds(),
		"violations":  violations,
	}
	if agg.Samples == nil {
		cov["samples"] = []interface{}{}
	}
	_ = os.MkdirAll(filepath.Join(outRoot, "evidence"), 0o755)
	eb, _ := json.MarshalIndent(ev, "", " ")
	if err := os.WriteFile(filepath.Join(outRoot, "evidence", id+".json"), eb, 0o644); err != nil {
		fatal2("cannot write evidence: %s", err)
	}

	for _, l := range violationLines {
		fmt.Println(l)
	}
	if violations > 0 {
		return 1
	}
	if inconclusive != "" {
		fmt.Println("INCONCLUSIVE: " + inconclusive)
		return 2
	}
	fmt.Printf("OK property=%s tier=%s seed=%d cases=%d evaluations=%d distinct_nontrivial=%d wall=%.1fs\n",
		id, tier, sd, agg.Cases, agg.Evaluations, len(nt), time.Since(start).Seconds())
	return 0
}

func sigListed(id, sig string) bool {
	for _, f := range loadFindings() {
		if f.Property == id && f.Kind == "known" && f.Sig == sig {
			return true
		}
	}
	return false
}

func tail(s string, n int) string {
	lines := strings.Split(s, "\n")
	if len(lines) > n {
		lines = lines[len(lines)-n:]
	}
	return strings.Join(lines, "\n")
}

func saveFailCase(id, src string) string {
	b, err := os.ReadFile(src)
	if err != nil {
		return src
	}
	h := sha1.Sum(b)
	dir := filepath.Join(outRoot, "replays", id)
	_ = os.MkdirAll(dir, 0o755)
	name := fmt.Sprintf("found-%x.json", h[:6])
	dst := filepath.Join(dir, name)
	_ = os.WriteFile(dst, b, 0o644)
	return filepath.Join("replays", id, name)
}

func saveText(id, kind, text string) string {
	h := sha1.Sum([]byte(text))
	dir := filepath.Join(outRoot, "replays", id)
	_ = os.MkdirAll(dir, 0o755)
	name := fmt.Sprintf("%s-%x.txt", kind, h[:6])
	_ = os.WriteFile(filepath.Join(dir, name), []byte(text), 0o644)
	return filepath.Join("replays", id, name)
}

// runFuzz runs the native coverage-guided fuzz target with a wall-clock budget.
func runFuzz(id string, spec propSpec, tmp string) (violationLine string, info map[string]interface{}, inconclusive string) {
	info = map[string]interface{}{"target": spec.Fuzz, "budget": spec.FuzzTime.String()}
	cache := filepath.Join(tmp, "fuzzcache")
	_ = os.MkdirAll(cache, 0o755)
	// `go test -fuzz` must be run through the go tool to get coverage instrumentation
	args := []string{"test", "-tags", "verif", "-vet=off", "-run", "^$", "-fuzz", "^" + spec.Fuzz + "$",
		"-fuzztime", spec.FuzzTime.String()}
	args = append(append(args, altModArgs(tmp)...), "./props")
	_ = cache
	cmd := exec.Command("go", args...)
	cmd.Dir = harness
	cmd.Env = append(append([]string{}, goEnv...), "VERIF_ROOT="+root, "VERIF_KNOWN="+filepath.Join(root, "known_findings.json"),
		"VERIF_FAILCASE="+filepath.Join(tmp, "fail-fuzz.json"))
	var buf bytes.Buffer
	cmd.Stdout = &buf
	cmd.Stderr = &buf
	err := cmd.Run()
	out := buf.String()
	execsRe := regexp.MustCompile(`execs: (\d+)`)
	if ms := execsRe.FindAllStringSubmatch(out, -1); len(ms) > 0 {
		n, _ := strconv.Atoi(ms[len(ms)-1][1])
		info["execs"] = n
	}
	if err == nil {
		return "", info, ""
	}
	// a crasher is written to testdata/fuzz/<target>/<hash>
	crashRe := regexp.MustCompile(`testdata/fuzz/` + spec.Fuzz + `/([0-9a-f]+)`)
	if m := crashRe.FindStringSubmatch(out); m != nil {
		src := filepath.Join(harness, "props", "testdata", "fuzz", spec.Fuzz, m[1])
		dir := filepath.Join(outRoot, "replays", id)
		_ = os.MkdirAll(dir, 0o755)
		dst := filepath.Join(dir, "fuzz-"+m[1]+".json")
		if fc, e := os.ReadFile(filepath.Join(tmp, "fail-fuzz.json")); e == nil {
			_ = os.WriteFile(dst, fc, 0o644)
			_ = os.Remove(src)
			fmt.Println(tail(out, 60))
			return fmt.Sprintf("VIOLATION property=%s replay=%s", id, filepath.Join("replays", id, "fuzz-"+m[1]+".json")), info, ""
		}
		// The worker died on this input without the oracle reporting a failure (no case file):
		// replay the saved input through the target in a fresh process. Only a failure that
		// reproduces counts; a worker killed by resource exhaustion under 16 instrumented
		// workers is not a verdict on the property.
		rargs := []string{"test", "-tags", "verif", "-vet=off", "-count=1", "-run", "^" + spec.Fuzz + "$/" + m[1]}
		rargs = append(append(rargs, altModArgs(tmp)...), "./props")
		rcmd := exec.Command("go", rargs...)
		rcmd.Dir = harness
		rcmd.Env = cmd.Env
		rout, rerr := rcmd.CombinedOutput()
		crasher, _ := os.ReadFile(src)
		_ = os.Remove(src)
		if rerr == nil {
			info["unreproducible_crashers"] = 1
			fmt.Printf("fuzz worker died on a saved input that passes when replayed in a fresh process (not counted):\n%s\n", string(crasher))
			return "", info, ""
		}
		if fc, e := os.ReadFile(filepath.Join(tmp, "fail-fuzz.json")); e == nil {
			_ = os.WriteFile(dst, fc, 0o644)
			fmt.Println(tail(string(rout), 60))
			return fmt.Sprintf("VIOLATION property=%s replay=%s", id, filepath.Join("replays", id, "fuzz-"+m[1]+".json")), info, ""
		}
		fmt.Println(tail(string(rout), 60))
		return "", info, "fuzz crasher reproduces but the oracle wrote no case (harness problem): " + string(crasher)
	}
	fmt.Println(tail(out, 40))
	return "", info, "fuzz campaign ended abnormally without a crasher: " + err.Error()
}

var raceFrameRe = regexp.MustCompile(`(?m)^  (github\.com/hashicorp/hcl-lang/[^\s(]+)`)

// saveRace pairs a race report with the case that was running and stores both
// as a replay case.
func saveRace(id, lastCase, output string) string {
	report := output
	if i := strings.Index(report, "WARNING: DATA RACE"); i >= 0 {
		report = report[i:]
	}
	if len(report) > 6000 {
		report = report[:6000]
	}
	sig := "race"
	if m := raceFrameRe.FindStringSubmatch(report); m != nil {
		sig = "race:" + strings.TrimPrefix(m[1], "github.com/hashicorp/hcl-lang/")
	}
	var fc map[string]interface{}
	if b, err := os.ReadFile(lastCase); err == nil {
		_ = json.Unmarshal(b, &fc)
	}
	if fc == nil {
		return saveText(id, "race", output)
	}
	fc["failures"] = []map[string]string{{"sig": sig, "msg": report}}
	b, _ := json.MarshalIndent(fc, "", " ")
	h := sha1.Sum(b)
	dir := filepath.Join(outRoot, "replays", id)
	_ = os.MkdirAll(dir, 0o755)
	name := fmt.Sprintf("found-%x.json", h[:6])
	_ = os.WriteFile(filepath.Join(dir, name), b, 0o644)
	return filepath.Join("replays", id, name)
}
